import RV.Base.SetList
/-
  C19 — model of `rdflib/collection.py` (class `Collection`) and of the `Graph`
  helpers it uses (`Graph.value`, `Graph.items`, `Graph.set`, `add`, `remove`,
  `objects`, `__contains__`), as the code stands after the `fix:` commits of
  branch fix-C19.

  * The graph is a finite set of triples, kept as a list (`sinsert` = `set.add`;
    `remove(pattern)` = filter).  `Graph.value(s, p, any=True)` is "the object of
    some matching triple"; the model takes the first match, the theorems only use
    that the answer is the object of *a* matching triple (unique in a well-formed chain).
  * Terms are naturals owned by the harness; `FIRST`, `REST`, `NIL` are rdf:first,
    rdf:rest, rdf:nil.  The model has no notion of truthiness: every member is an
    ordinary term.  (Cells are assumed truthy nodes, as `if c:` / `while list:` test them.)
  * `BNode()` is an explicit supply `St.fresh`.
  * Walks that are `while` loops in Python take fuel `|g| + 2`; `LemmasTotal.lean` shows
    it is never exhausted by `items`/`index` on *any* graph (cycle guard), `Lemmas.lean`
    and `LemmasOps.lean` that it suffices for every walk on a well-formed chain.
    `Err.fuel` therefore stands for "the real loop does not terminate" (only `_end`,
    i.e. append/+= on a cyclic chain — outside the property).
  * Mutations that fail half-way on a malformed chain (Graph.set asserting on a
    `None` object …) return the error and the unchanged graph; the property does not
    speak about writes to malformed chains.
-/
namespace RV.C19

abbrev Term := Nat
abbrev Triple := Term × Term × Term
abbrev Graph := List Triple

def FIRST : Term := 0
def REST : Term := 1
def NIL : Term := 2

inductive Err
  | indexError | keyError | valueError | other | fuel
  deriving DecidableEq, Repr

/-! ### Graph primitives -/

/-- `Graph.value(s, p)`: the object of a matching triple (first match), `None` if there is none -/
def value : Graph → Term → Term → Option Term
  | [], _, _ => none
  | (s', p', o) :: g, s, p => if s' = s ∧ p' = p then some o else value g s p

/-- `list(graph.objects(s, p))` -/
def objects : Graph → Term → Term → List Term
  | [], _, _ => []
  | (s', p', o) :: g, s, p => if s' = s ∧ p' = p then o :: objects g s p else objects g s p

/-- `(s, p, None) in graph` -/
def hasSP (g : Graph) (s p : Term) : Bool := (value g s p).isSome

/-- `graph.remove((s, p, None))` -/
def removeSP (g : Graph) (s p : Term) : Graph := g.filter (fun t => !(t.1 == s && t.2.1 == p))

/-- `graph.remove((s, None, None))` -/
def removeS (g : Graph) (s : Term) : Graph := g.filter (fun t => !(t.1 == s))

/-- `graph.add(t)` -/
def add (g : Graph) (t : Triple) : Graph := sinsert g t

/-- `graph.set((s, p, o))` = remove `(s, p, None)` then add -/
def gset (g : Graph) (s p o : Term) : Graph := add (removeSP g s p) (s, p, o)

/-! ### Collection: navigation -/

/-- `_get_container(index)` for `index ≥ 0`: follow `index` rdf:rest links from the head -/
def getContainer (g : Graph) : Option Term → Nat → Option Term
  | c, 0 => c
  | none, _ + 1 => none
  | some c, k + 1 => getContainer g (value g c REST) k

/-- `Graph.items(list)`: the items yielded so far and how the generator ended
    (`none` = exhausted normally, `some e` = raised `e` after yielding them).
    `chain` is the visited set of the cycle guard. -/
def itemsAux (g : Graph) : Nat → Term → List Term → List Term × Option Err
  | 0, _, _ => ([], some .fuel)
  | f + 1, l, chain =>
    match value g l REST with
    | none => ((value g l FIRST).toList, none)
    | some n =>
      if n ∈ chain then ((value g l FIRST).toList, some .valueError)
      else ((value g l FIRST).toList ++ (itemsAux g f n (n :: chain)).1, (itemsAux g f n (n :: chain)).2)

def items (g : Graph) (h : Term) : List Term × Option Err := itemsAux g (g.length + 2) h [h]

/-- `len(c)` = `len(list(graph.items(uri)))` -/
def len (g : Graph) (h : Term) : Except Err Nat :=
  match (items g h).2 with
  | none => .ok (items g h).1.length
  | some e => .error e

/-- `list(c)` -/
def iter (g : Graph) (h : Term) : Except Err (List Term) :=
  match (items g h).2 with
  | none => .ok (items g h).1
  | some e => .error e

/-- `x in c` (no `__contains__`: Python iterates and stops at the first hit) -/
def contains (g : Graph) (h x : Term) : Except Err Bool :=
  if x ∈ (items g h).1 then .ok true
  else match (items g h).2 with
    | none => .ok false
    | some e => .error e

/-- `Collection.index(item)` (with the visited set added by the fix) -/
def indexAux (g : Graph) (item : Term) : Nat → Term → Nat → List Term → Except Err Nat
  | 0, _, _, _ => .error .fuel
  | f + 1, l, i, chain =>
    if (l, FIRST, item) ∈ g then .ok i
    else match objects g l REST with
      | [] => .error .other                      -- Exception("Malformed RDF Collection")
      | [n] =>
        if n = NIL then .error .valueError       -- "… is not in …"
        else if n ∈ chain then .error .valueError -- recursive rdf:rest reference
        else indexAux g item f n (i + 1) (n :: chain)
      | _ :: _ :: _ => .error .other             -- assert len(newlink) == 1

def index (g : Graph) (h item : Term) : Except Err Nat := indexAux g item (g.length + 2) h 0 [h]

/-- `_normalize_index(key)` -/
def normIdx (g : Graph) (h : Term) (key : Int) : Except Err Nat :=
  if key < 0 then
    match len g h with
    | .error e => .error e
    | .ok n => if key + n < 0 then .error .indexError else .ok (key + n).toNat
  else .ok key.toNat

/-- `__getitem__` after normalisation -/
def getAt (g : Graph) (h : Term) (k : Nat) : Except Err Term :=
  match getContainer g (some h) k with
  | none => .error .indexError
  | some c =>
    match value g c FIRST with
    | some v => .ok v
    | none => .error .indexError

def getItem (g : Graph) (h : Term) (key : Int) : Except Err Term :=
  match normIdx g h key with
  | .error e => .error e
  | .ok k => getAt g h k

/-! ### Collection: mutation -/

/-- `__setitem__`: NOT repaired for `key == len(c)` (an rdflib test depends on it):
    the cell found there is rdf:nil (or the empty head) and gets an rdf:first. -/
def setItem (g : Graph) (h : Term) (key : Int) (v : Term) : Except Err Graph :=
  match normIdx g h key with
  | .error e => .error e
  | .ok k =>
    match getContainer g (some h) k with
    | some c => .ok (gset g c FIRST v)
    | none => .error .indexError

def delItem (g : Graph) (h : Term) (key : Int) : Except Err Graph :=
  match normIdx g h key with
  | .error e => .error e
  | .ok k =>
    match getAt g h k with                           -- self[key]
    | .error e => .error e
    | .ok _ =>
      match getContainer g (some h) k with
      | none => .error .other                        -- assert current
      | some cur =>
        match len g h with
        | .error e => .error e
        | .ok n =>
          if n = 1 ∧ 0 < k then .ok g
          else if k = 0 then
            -- the head cell stays and takes over the second cell (fix)
            match getContainer g (some h) 1 with
            | none => .error .other
            | some nx =>
              if nx = NIL then .ok (removeSP (removeSP g cur FIRST) cur REST)
              else
                match value g nx FIRST with
                | none => .error .other
                | some f =>
                  match value (gset g cur FIRST f) nx REST with
                  | none => .error .other
                  | some r => .ok (removeS (gset (gset g cur FIRST f) cur REST r) nx)
          else if k + 1 = n then
            -- the tail
            match getContainer g (some h) (k - 1) with
            | none => .error .other
            | some prior => .ok (removeS (gset g prior REST NIL) cur)
          else
            match getContainer g (some h) (k + 1), getContainer g (some h) (k - 1) with
            | some nx, some prior => .ok (gset (removeS g cur) prior REST nx)
            | _, _ => .error .other

/-- `_end()`: the last cell (no cycle guard in the code: fuel exhaustion = the loop never ends) -/
def endAux (g : Graph) : Nat → Term → Except Err Term
  | 0, _ => .error .fuel
  | f + 1, c =>
    match value g c REST with
    | none => .ok c
    | some r => if r = NIL then .ok c else endAux g f r

def endOf (g : Graph) (h : Term) : Except Err Term := endAux g (g.length + 2) h

structure St where
  g : Graph
  fresh : Nat

def append (s : St) (h item : Term) : Except Err St :=
  match endOf s.g h with
  | .error e => .error e
  | .ok e =>
    if e = NIL then .error .valueError
    else if hasSP s.g e FIRST then
      .ok ⟨add (add (gset s.g e REST s.fresh) (s.fresh, FIRST, item)) (s.fresh, REST, NIL), s.fresh + 1⟩
    else .ok ⟨add (add s.g (e, FIRST, item)) (e, REST, NIL), s.fresh⟩

/-- the `for item in other` loop of `__iadd__`: graph, fresh supply, current end cell -/
def iaddLoop : Graph → Nat → Term → List Term → Graph × Nat × Term
  | g, fr, e, [] => (g, fr, e)
  | g, fr, e, x :: xs =>
    if hasSP g e FIRST then iaddLoop (add (add g (e, REST, fr)) (fr, FIRST, x)) (fr + 1) fr xs
    else iaddLoop (add g (e, FIRST, x)) fr e xs

/-- `__iadd__`: the operand is read into a list first (`other = list(other)`, fix C19-F7), so it is a plain
    list here whatever iterable it was — also when it was the collection itself (`c += c`). -/
def iadd (s : St) (h : Term) (xs : List Term) : Except Err St :=
  match endOf s.g h with
  | .error e => .error e
  | .ok e =>
    if e = NIL then .error .valueError
    else
      let r := iaddLoop (removeSP s.g e REST) s.fresh e xs
      .ok ⟨if hasSP r.1 r.2.2 FIRST then add r.1 (r.2.2, REST, NIL) else r.1, r.2.1⟩

/-- `Collection(graph, uri, seq)`: `if seq: self += seq` -/
def ctor (s : St) (h : Term) (xs : List Term) : Except Err St :=
  match xs with
  | [] => .ok s
  | _ :: _ => iadd s h xs

def clearAux : Nat → Graph → Option Term → Except Err Graph
  | _, g, none => .ok g
  | 0, _, some _ => .error .fuel
  | f + 1, g, some c => clearAux f (removeSP (removeSP g c FIRST) c REST) (value g c REST)

def clear (g : Graph) (h : Term) : Except Err Graph := clearAux (g.length + 2) g (some h)

/-! ### `Collection.n3()` -/

/-- `" ".join(ws)` -/
def joinSp : List (List Char) → List Char
  | [] => []
  | w :: ws =>
    match ws with
    | [] => w
    | _ :: _ => w ++ ' ' :: joinSp ws

/-- `"( %s )" % " ".join(ws)` -/
def n3Text {α : Type} (tok : α → List Char) (xs : List α) : List Char :=
  '(' :: ' ' :: (joinSp (xs.map tok) ++ [' ', ')'])

/-- `Collection.n3()`: `"( %s )" % (" ".join([i.n3() for i in self]))`; `tok` is the members' own `n3()`.
    A member that is itself the head of a list is rendered by its own `n3()` (a blank-node label), not nested. -/
def n3 (tok : Term → List Char) (g : Graph) (h : Term) : Except Err (List Char) :=
  match iter g h with
  | .ok xs => .ok (n3Text tok xs)
  | .error e => .error e

/-! ### rdflib's term syntax for the members (`URIRef.n3()`, `BNode.n3()`, `Literal.n3()` without a namespace
    manager), and a reader of N3 list syntax -/

/-- the terms a collection holds: IRI, blank node, literal (lexical form, datatype IRI, language tag) -/
inductive RTerm
  | iri (u : List Char)
  | bnode (id : List Char)
  | lit (lex : List Char) (dt : Option (List Char)) (lang : Option (List Char))
  deriving DecidableEq, Repr

/-- `Literal._quote_literal` for a lexical form without a line feed:
    `.replace("\\", "\\\\").replace('"', '\\"').replace("\r", "\\r")` -/
def escC (c : Char) : List Char :=
  if c = '\\' then ['\\', '\\'] else if c = '"' then ['\\', '"'] else if c = '\r' then ['\\', 'r'] else [c]

def esc : List Char → List Char
  | [] => []
  | c :: cs => escC c ++ esc cs

/-- `term.n3()` -/
def tokR : RTerm → List Char
  | .iri u => '<' :: (u ++ ['>'])
  | .bnode id => '_' :: ':' :: id
  | .lit x (some d) _ => '"' :: (esc x ++ '"' :: '^' :: '^' :: '<' :: (d ++ ['>']))
  | .lit x none (some l) => '"' :: (esc x ++ '"' :: '@' :: l)
  | .lit x none none => '"' :: (esc x ++ ['"'])

/-- split at the first `d`: what is before it, what is after it -/
def untilC (d : Char) : List Char → Option (List Char × List Char)
  | [] => none
  | c :: cs =>
    if c = d then some ([], cs)
    else match untilC d cs with
      | some (a, r) => some (c :: a, r)
      | none => none

/-- the characters up to the first blank, and the rest (starting with that blank) -/
def word : List Char → List Char × List Char
  | [] => ([], [])
  | c :: cs => if c = ' ' then ([], c :: cs) else (c :: (word cs).1, (word cs).2)

/-- read an escaped string body up to its closing quote -/
def unesc : List Char → Option (List Char × List Char)
  | [] => none
  | c :: cs =>
    if c = '"' then some ([], cs)
    else if c = '\\' then
      match cs with
      | [] => none
      | e :: cs' =>
        match unesc cs' with
        | some (a, r) => some ((if e = 'r' then '\r' else e) :: a, r)
        | none => none
    else match unesc cs with
      | some (a, r) => some (c :: a, r)
      | none => none

/-- the term-level lexer: one IRI `<…>`, blank node `_:…`, or literal `"…"`, `"…"^^<…>`, `"…"@…` off the front -/
def lexR : List Char → Option (RTerm × List Char)
  | '<' :: cs =>
    match untilC '>' cs with
    | some (u, r) => some (.iri u, r)
    | none => none
  | '_' :: ':' :: cs => some (.bnode (word cs).1, (word cs).2)
  | '"' :: cs =>
    match unesc cs with
    | none => none
    | some (x, r) =>
      match r with
      | '^' :: '^' :: '<' :: r' =>
        match untilC '>' r' with
        | some (d, r'') => some (.lit x (some d) none, r'')
        | none => none
      | '@' :: r' => some (.lit x none (some (word r').1), (word r').2)
      | _ => some (.lit x none none, r)
  | _ => none

/-- A reader of the inside of an N3 list `( … )`: skips blanks, stops at the closing parenthesis, and
    otherwise lets the term-level lexer `lex` take one term off the front.  Fuel = characters left. -/
def readItems {α : Type} (lex : List Char → Option (α × List Char)) : Nat → List Char → Option (List α)
  | 0, _ => none
  | f + 1, cs =>
    if cs = [')'] then some []
    else if cs.head? = some ' ' then readItems lex f cs.tail
    else
      match lex cs with
      | none => none
      | some (x, rest) =>
        match readItems lex f rest with
        | some xs => some (x :: xs)
        | none => none

def readN3 {α : Type} (lex : List Char → Option (α × List Char)) : List Char → Option (List α)
  | '(' :: cs => readItems lex cs.length cs
  | _ => none

/-! ### The abstraction function: the list a chain denotes (strict walk) -/

def asListAux (g : Graph) : Nat → Term → Except Err (List Term)
  | 0, _ => .error .fuel
  | f + 1, c =>
    if c = NIL then .ok []
    else
      match value g c FIRST, value g c REST with
      | some x, some r =>
        match asListAux g f r with
        | .ok xs => .ok (x :: xs)
        | .error e => .error e
      | _, _ => .error .other

/-- an empty collection is a head without list triples -/
def asList (g : Graph) (h : Term) : Except Err (List Term) :=
  if hasSP g h FIRST || hasSP g h REST then asListAux g (g.length + 2) h else .ok []

/-! ### One step of a history -/

inductive Op
  | append (x : Term)
  | extend (xs : List Term)
  | setItem (i : Int) (x : Term)
  | delItem (i : Int)
  | clear
  | len
  | iter
  | getItem (i : Int)
  | index (x : Term)
  | contains (x : Term)
  deriving DecidableEq, Repr

inductive Out
  | unit
  | nat (n : Nat)
  | term (t : Term)
  | list (xs : List Term)
  | bool (b : Bool)
  | err (e : Err)
  deriving DecidableEq, Repr

def outOf {α} (f : α → Out) : Except Err α → Out
  | .ok a => f a
  | .error e => .err e

def stOf (s : St) : Except Err St → St × Out
  | .ok s' => (s', .unit)
  | .error e => (s, .err e)

def gOf (s : St) : Except Err Graph → St × Out
  | .ok g => (⟨g, s.fresh⟩, .unit)
  | .error e => (s, .err e)

def step (h : Term) (s : St) : Op → St × Out
  | .append x => stOf s (append s h x)
  | .extend xs => stOf s (iadd s h xs)
  | .setItem i x => gOf s (setItem s.g h i x)
  | .delItem i => gOf s (delItem s.g h i)
  | .clear => gOf s (clear s.g h)
  | .len => (s, outOf .nat (len s.g h))
  | .iter => (s, outOf .list (iter s.g h))
  | .getItem i => (s, outOf .term (getItem s.g h i))
  | .index x => (s, outOf .nat (index s.g h x))
  | .contains x => (s, outOf .bool (contains s.g h x))

def run (h : Term) : St → List Op → St × List Out
  | s, [] => (s, [])
  | s, op :: ops => ((run h (step h s op).1 ops).1, (step h s op).2 :: (run h (step h s op).1 ops).2)

end RV.C19
