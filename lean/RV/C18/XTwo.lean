import RV.C18.XLemmas
/-
  C18 round g — two wrappers side by side over one store (code-shaped model), touching disjoint quads.
  Mirrors `TwoWrappers.lean` (which is about the abstract model).
-/
namespace RV.C18

def XOp.touches : XOp → Quad → Bool
  | .add q', q => q == q'
  | .remove p, q => p.matches q
  | _, _ => false

/-- effect of one operation on the wrapped store's quads, whichever wrapper issues it -/
def curStepX (c : List Quad) : XOp → List Quad
  | .add q => sinsert c q
  | .remove p => c.filter (fun q => !p.matches q)
  | _ => c

theorem xstep_cur (s : XW) (o : XOp) : (s.step o).m.cur = curStepX s.m.cur o := by
  cases o with
  | add q => exact xw_add_cur s q
  | remove p => exact xw_remove_cur s p
  | bind a b o => rfl
  | pass => rfl

theorem mem_curStepX_congr {c c' : List Quad} (o : XOp) (q : Quad) (h : q ∈ c ↔ q ∈ c') :
    (q ∈ curStepX c o ↔ q ∈ curStepX c' o) := by
  cases o with
  | add q' => simp only [curStepX, mem_sinsert, h]
  | remove p => simp only [curStepX, List.mem_filter, h]
  | bind a b o => exact h
  | pass => exact h

theorem mem_curStepX_untouched (c : List Quad) (o : XOp) (q : Quad) (h : o.touches q = false) :
    (q ∈ curStepX c o ↔ q ∈ c) := by
  cases o with
  | add q' =>
    simp only [XOp.touches, beq_eq_false_iff_ne, ne_eq] at h
    simp [curStepX, h]
  | remove p =>
    simp only [XOp.touches] at h
    simp [curStepX, h]
  | bind a b o => rfl
  | pass => rfl

theorem nodup_curStepX {c : List Quad} (h : c.Nodup) (o : XOp) : (curStepX c o).Nodup := by
  cases o with
  | add q => exact nodup_sinsert h
  | remove p => exact h.filter _
  | bind a b o => exact h
  | pass => exact h

theorem removeLog_touches {cur : List Quad} {log l : List Entry} {p : Pat} (hp : p.wellNamed = true)
    (hl : removeLog cur log p = some l) {e : Entry} (h : e ∈ l) : e ∈ log ∨ p.matches e.1 = true := by
  unfold removeLog at hl
  unfold Pat.wellNamed at hp
  split at hl
  · next hg =>
    rw [hg] at hp
    simp only [Option.isSome_none, Bool.false_or] at hp
    split at hl
    · next g hpg =>
      rw [hpg] at hp
      simp only at hp
      rw [if_pos hp] at hl
      cases hl
      rcases mem_logRemovals _ _ _ h with h1 | h1
      · exact Or.inl h1
      · exact Or.inr ((mem_graphTriples hpg _).mp h1).2
    · next hpg =>
      cases hl
      rcases mem_logRemovals _ _ _ h with h1 | h1
      · exact Or.inl h1
      · exact Or.inr ((mem_cgQuads hpg _).mp h1).2
  · next q hg =>
    have hpq := ground_pat hg
    split at hl
    · cases hl
    · cases hl
      unfold cancelOr at h
      split at h
      · exact Or.inl (List.mem_of_mem_erase h)
      · rcases List.mem_append.mp h with h2 | h2
        · exact Or.inl h2
        · simp at h2; subst h2; subst hpq
          exact Or.inr ((pat_matches_self q q).mpr rfl)

theorem xlog_step_touches (s : XW) (o : XOp) (ho : o.wellNamed = true) (e : Entry) (h : e ∈ (s.step o).log) :
    e ∈ s.log ∨ o.touches e.1 = true := by
  cases o with
  | add q =>
    simp only [XW.step, XW.add] at h
    split at h
    · exact Or.inl h
    · next l hl =>
      obtain ⟨_, rfl⟩ := addLog_some hl
      simp only at h
      unfold cancelOr at h
      split at h
      · exact Or.inl (List.mem_of_mem_erase h)
      · rcases List.mem_append.mp h with h2 | h2
        · exact Or.inl h2
        · simp at h2; subst h2; exact Or.inr (by simp [XOp.touches])
  | remove p =>
    simp only [XW.step, XW.remove] at h
    split at h
    · exact Or.inl h
    · next l hl => exact removeLog_touches ho hl h
  | bind a b o => exact Or.inl h
  | pass => exact Or.inl h

/-- invariant of wrapper `i` relative to the evolving image `I` of the *other* wrapper's work -/
structure JX (T : Quad → Bool) (i : Bool) (s : X2) (I : List Quad) : Prop where
  inv : Inv I s.m.cur (s.w i).log
  terr : ∀ e ∈ (s.w i).log, T e.1 = true
  nodup : s.m.cur.Nodup

theorem x2_w_put_same (s : X2) (i : Bool) (w : XW) : ((s.put i w).w i) = w := by
  cases i <;> simp [X2.put, X2.w]

theorem x2_w_put_other_log (s : X2) (i j : Bool) (w : XW) (h : i ≠ j) : ((s.put j w).w i).log = (s.w i).log := by
  cases i <;> cases j <;> simp_all [X2.put, X2.w]

theorem x2_put_m (s : X2) (i : Bool) (w : XW) : (s.put i w).m = w.m := by
  cases i <;> simp [X2.put]

theorem x2_w_m (s : X2) (i : Bool) : (s.w i).m = s.m := by
  cases i <;> simp [X2.w]

theorem JX_step {T : Quad → Bool} {i : Bool} {s : X2} {I : List Quad} (h : JX T i s I)
    (j : Bool) (o : XOp) (ho : o.wellNamed = true)
    (hd : ∀ q, o.touches q = true → (T q = true ↔ j = i)) :
    JX T i (s.step (j, o)) (if j = i then I else curStepX I o) := by
  by_cases hji : j = i
  · subst hji
    simp only [if_true]
    have hinv : Inv I (s.w j).m.cur (s.w j).log := by rw [x2_w_m]; exact h.inv
    have hnd : (s.w j).m.cur.Nodup := by rw [x2_w_m]; exact h.nodup
    refine ⟨?_, ?_, ?_⟩
    · simp only [X2.step, x2_w_put_same, x2_put_m]
      exact xinv_step hinv hnd o ho
    · intro e he
      simp only [X2.step, x2_w_put_same] at he
      rcases xlog_step_touches _ o ho e he with h1 | h1
      · exact h.terr e h1
      · exact (hd e.1 h1).mpr rfl
    · simp only [X2.step, x2_put_m]
      exact xnodup_step hnd o
  · simp only [if_neg hji]
    have hij : i ≠ j := fun e => hji e.symm
    have hcur : (s.step (j, o)).m.cur = curStepX s.m.cur o := by
      simp only [X2.step, x2_put_m, xstep_cur, x2_w_m]
    have hlog : ((s.step (j, o)).w i).log = (s.w i).log := by
      simp only [X2.step]; exact x2_w_put_other_log s i j _ hij
    have hunt : ∀ q, T q = true → o.touches q = false := by
      intro q hq
      cases ht : o.touches q with
      | false => rfl
      | true => exact absurd ((hd q ht).mp hq) hji
    refine ⟨?_, ?_, ?_⟩
    · rw [hcur, hlog]
      refine ⟨?_, ?_, ?_, h.inv.nodup⟩
      · intro q hq
        have hT := h.terr _ hq
        have := h.inv.rem q hq
        rw [mem_curStepX_untouched _ _ _ (hunt q hT), mem_curStepX_untouched _ _ _ (hunt q hT)]
        exact this
      · intro q hq
        have hT := h.terr _ hq
        have := h.inv.add q hq
        rw [mem_curStepX_untouched _ _ _ (hunt q hT), mem_curStepX_untouched _ _ _ (hunt q hT)]
        exact this
      · intro q h1 h2
        exact mem_curStepX_congr o q (h.inv.none q h1 h2)
    · rw [hlog]; exact h.terr
    · rw [hcur]; exact nodup_curStepX h.nodup o

/-- the other wrapper's operations, applied alone -/
def othersImageX (i : Bool) (I : List Quad) (ops : List (Bool × XOp)) : List Quad :=
  ops.foldl (fun I jo => if jo.1 = i then I else curStepX I jo.2) I

theorem JX_run {T : Quad → Bool} {i : Bool} (ops : List (Bool × XOp)) :
    ∀ (s : X2) (I : List Quad), JX T i s I →
      (∀ jo ∈ ops, jo.2.wellNamed = true) →
      (∀ jo ∈ ops, ∀ q, jo.2.touches q = true → (T q = true ↔ jo.1 = i)) →
      JX T i (s.run ops) (othersImageX i I ops) := by
  induction ops with
  | nil => intro s I h _ _; exact h
  | cons jo ops ih =>
    intro s I h hw hd
    obtain ⟨j, o⟩ := jo
    simp only [X2.run, List.foldl_cons, othersImageX] at *
    exact ih _ _ (JX_step h j o (hw (j, o) (by simp)) (hd (j, o) (by simp)))
      (fun jo hjo => hw jo (by simp [hjo])) (fun jo hjo => hd jo (by simp [hjo]))

theorem xrun_ops_cur (os : List XOp) : ∀ (s : XW), (s.run (os.map .op)).m.cur = os.foldl curStepX s.m.cur := by
  induction os with
  | nil => intro s; rfl
  | cons o os ih =>
    intro s
    simp only [List.map_cons, XW.run, List.foldl_cons] at *
    rw [ih, XW.cmd, xstep_cur]

theorem othersImageX_eq (i : Bool) (ops : List (Bool × XOp)) : ∀ (I : List Quad),
    othersImageX i I ops = ((ops.filter (fun jo => jo.1 != i)).map (·.2)).foldl curStepX I := by
  induction ops with
  | nil => intro I; rfl
  | cons jo ops ih =>
    intro I
    obtain ⟨j, o⟩ := jo
    by_cases hji : j = i
    · subst hji
      simp only [othersImageX, List.foldl_cons, if_true] at *
      rw [List.filter_cons_of_neg (by simp)]
      exact ih I
    · simp only [othersImageX, List.foldl_cons, if_neg hji] at *
      rw [List.filter_cons_of_pos (by simpa using hji)]
      simp only [List.map_cons, List.foldl_cons]
      exact ih _

/-! ### graph-level operations: what their expansion into wrapper calls means on a set of quads -/

def GOp.wellNamed : GOp → Bool
  | .store o => o.wellNamed
  | .set q => truthy q.graph
  | .removeContext g => truthy g
  | _ => true

def GCmd.wellNamed : GCmd → Bool
  | .op o => o.wellNamed
  | _ => true

theorem expand_wellNamed (g : GOp) (h : g.wellNamed = true) : ∀ o ∈ g.expand, o.wellNamed = true := by
  intro o ho
  cases g with
  | store o' => simp only [GOp.expand, List.mem_singleton] at ho; subst ho; exact h
  | addN qs =>
    simp only [GOp.expand, List.mem_map] at ho
    obtain ⟨q, _, rfl⟩ := ho; rfl
  | set q =>
    simp only [GOp.expand, List.mem_cons, List.not_mem_nil, or_false] at ho
    rcases ho with rfl | rfl
    · simp only [GOp.wellNamed] at h
      simp only [XOp.wellNamed, Pat.wellNamed, Pat.ground?, Option.isSome_none, Bool.false_or]
      exact h
    · rfl
  | isub qs =>
    simp only [GOp.expand, List.mem_map] at ho
    obtain ⟨q, _, rfl⟩ := ho
    exact pat_wellNamed q
  | removeContext g' =>
    simp only [GOp.expand, List.mem_singleton] at ho
    subst ho
    simp only [GOp.wellNamed] at h
    simp only [XOp.wellNamed, Pat.wellNamed, Pat.ground?, Option.isSome_none, Bool.false_or]
    exact h
  | addForeign q extra =>
    simp only [GOp.expand, List.mem_append, List.mem_map, List.mem_singleton] at ho
    rcases ho with ⟨t, _, rfl⟩ | rfl <;> rfl

theorem gcmd_expand_wellNamed (c : GCmd) (h : c.wellNamed = true) : ∀ x ∈ c.expand, x.wellNamed = true := by
  intro x hx
  cases c with
  | op g =>
    simp only [GCmd.expand, List.mem_map] at hx
    obtain ⟨o, ho, rfl⟩ := hx
    exact expand_wellNamed g h o ho
  | commit => simp only [GCmd.expand, List.mem_singleton] at hx; subst hx; rfl
  | rollback => simp only [GCmd.expand, List.mem_singleton] at hx; subst hx; rfl

theorem mem_fold_adds (qs : List Quad) : ∀ (c : List Quad) (x : Quad),
    x ∈ (qs.map XOp.add).foldl curStepX c ↔ x ∈ qs ∨ x ∈ c := by
  induction qs with
  | nil => intro c x; simp
  | cons q qs ih =>
    intro c x
    simp only [List.map_cons, List.foldl_cons, ih, curStepX, mem_sinsert, List.mem_cons]
    constructor
    · rintro (h | h | h)
      · exact Or.inl (Or.inr h)
      · exact Or.inl (Or.inl h)
      · exact Or.inr h
    · rintro ((h | h) | h)
      · exact Or.inr (Or.inl h)
      · exact Or.inl h
      · exact Or.inr (Or.inr h)

theorem mem_fold_removes (qs : List Quad) : ∀ (c : List Quad) (x : Quad),
    x ∈ (qs.map (fun q => XOp.remove q.pat)).foldl curStepX c ↔ x ∈ c ∧ x ∉ qs := by
  induction qs with
  | nil => intro c x; simp
  | cons q qs ih =>
    intro c x
    simp only [List.map_cons, List.foldl_cons, ih, curStepX, List.mem_cons, not_or, ← sremove_eq_filter,
      mem_sremove]
    constructor
    · rintro ⟨⟨h1, h2⟩, h3⟩; exact ⟨h2, h1, h3⟩
    · rintro ⟨h2, h1, h3⟩; exact ⟨⟨h1, h2⟩, h3⟩

end RV.C18
