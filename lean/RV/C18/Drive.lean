import RV.C18.Model
import RV.C18.XModel
import RV.Base.Proto
/-
  C18 driver.  Protocol (terms, graph names, prefixes and namespaces are naturals owned by the harness):
    reset                      -> ok          (empty store, both logs empty; wrappers 0 and 1 side by side)
    reset-nested               -> ok          (wrapper 0 wraps wrapper 1 wraps the store)
    init s p o c               -> ok          (quad put into the wrapped store directly)
    add w s p o c              -> ok          (through wrapper w ∈ {0,1})
    remove w s p o c           -> ok          (each position a number or `*`)
    addn w (s p o c)*          -> ok          (Store.addN / += / a parser's adds: GOp.addN)
    isub w (s p o c)*          -> ok          (Graph.__isub__)
    set w s p o c              -> ok          (Graph.set)
    rmctx w c                  -> ok          (ConjunctiveGraph.remove_context)
    addf w s p o c (s p o)*    -> ok          (quad whose graph is a Graph of another store holding the listed triples)
    parse w (s p o c)*         -> ok          (Graph.parse: UOp.parse)
    upd-insert / upd-delete w (s p o c)*  | upd-delwhere w s p o c | upd-clear w c   -> ok   (SPARQL Update through Graph.update: UOp)
    bind w pfx ns ov           -> ok          (ov ∈ {0,1})
    pass w                     -> ok          (open / close / destroy / query)
    commit w | rollback w      -> ok
    obs                        -> the store's quads in the code-shaped model (XModel), sorted:  s,p,o,c s,p,o,c …
    obsw                       -> the same in the abstract model of rounds 1–f (Model.lean: W / St2)
    triples s p o c            -> store.triples(pattern, context) through the wrapper: s,p,o,c1,c2 … sorted
    len c                      -> __len__(context)   (`*` = no context)
    ctxs                       -> contexts(): known graph names, sorted
    tctx s p o                 -> contexts(triple), sorted
    bound                      -> one bit per Source (XModel.lean): are the Graph objects that read hands out bound to the wrapper
    ns                         -> the two binding dictionaries: p=n … | n=p …  (sorted)
    log w                      -> length of wrapper w's reverseOps (diagnostic)
-/
open RV RV.C18 RV.Proto

structure DS where
  m : Mem := { cur := [] }
  log0 : List Entry := []
  log1 : List Entry := []
  nested : Bool := false
  abs : St2 := ⟨[], [], []⟩          -- the abstract model, run side by side (not meaningful when nested)

def showQuads (qs : List Quad) : String :=
  let ls := qs.map (fun q => [q.1, q.2.1, q.2.2.1, q.2.2.2])
  " ".intercalate ((sortBy lexLt ls).map showNats)

def sortNats (xs : List Nat) : List Nat := (sortBy lexLt (xs.map (fun x => [x]))).flatten

def showPairs (ps : List (Nat × Nat)) : String :=
  " ".intercalate ((sortBy lexLt (ps.map (fun p => [p.1, p.2]))).map (fun l => "=".intercalate (l.map toString)))

def wsel? (w : String) : Option Bool :=
  if w = "0" then some false else if w = "1" then some true else none

def quad? (a b c d : String) : Option Quad := do
  let a ← a.toNat?; let b ← b.toNat?; let c ← c.toNat?; let d ← d.toNat?
  pure (a, b, c, d)

def pat? (a b c d : String) : Option Pat := do
  let a ← optNat? a; let b ← optNat? b; let c ← optNat? c; let d ← optNat? d
  pure (a, b, c, d)

/-- one non-read call through wrapper `w` -/
def DS.op (s : DS) (w : Bool) (o : XOp) : DS :=
  if s.nested then
    if w then
      let r := (XW.mk s.m s.log1).step o
      { s with m := r.m, log1 := r.log }
    else
      let r := (Nest.mk s.m s.log1 s.log0).cmd (.op o)
      { s with m := r.m, log1 := r.logIn, log0 := r.logOut }
  else
    let r := (X2.mk s.m s.log0 s.log1).step (w, o)
    { s with m := r.m, log0 := r.log0, log1 := r.log1 }

/-- a graph-level operation = the calls it makes, in order (both models) -/
def DS.gop (s : DS) (w : Bool) (g : GOp) : DS :=
  g.expand.foldl (fun s o =>
    let a := match o with
      | .add q => s.abs.step (w, .add q)
      | .remove p => s.abs.step (w, .remove p)
      | _ => s.abs
    { s.op w o with abs := a }) s

/-- a parse / SPARQL Update request = the calls it makes given the content at that moment (both models) -/
def DS.uop (s : DS) (w : Bool) (u : UOp) : DS :=
  (u.expandAt s.m.cur).foldl (fun s o =>
    let a := match o with
      | .add q => s.abs.step (w, .add q)
      | .remove p => s.abs.step (w, .remove p)
      | _ => s.abs
    { s.op w o with abs := a }) s

def quads? : List String → Option (List Quad)
  | [] => some []
  | a :: b :: c :: d :: r => do
    let q ← quad? a b c d
    let qs ← quads? r
    pure (q :: qs)
  | _ => none

def triples? : List String → Option (List Triple)
  | [] => some []
  | a :: b :: c :: r => do
    let a ← a.toNat?; let b ← b.toNat?; let c ← c.toNat?
    let ts ← triples? r
    pure ((a, b, c) :: ts)
  | _ => none

def DS.boundary (s : DS) (w : Bool) (rollback : Bool) : DS :=
  if s.nested then
    let c : NCmd := match w, rollback with
      | false, false => .commitOut
      | false, true => .rollbackOut
      | true, false => .commitIn
      | true, true => .rollbackIn
    let r := (Nest.mk s.m s.log1 s.log0).cmd c
    { s with m := r.m, log1 := r.logIn, log0 := r.logOut }
  else
    let x := X2.mk s.m s.log0 s.log1
    let r := if rollback then x.rollback w else x.commit w
    let a := if rollback then s.abs.rollback w else s.abs.commit w
    { s with m := r.m, log0 := r.log0, log1 := r.log1, abs := a }

def step (s : DS) : List String → DS × String
  | ["reset"] => ({}, "ok")
  | ["reset-nested"] => ({ nested := true }, "ok")
  | ["init", a, b, c, d] =>
    match quad? a b c d with
    | some q => ({ s with m := s.m.add q, abs := { s.abs with cur := sinsert s.abs.cur q } }, "ok")
    | none => (s, "bad-op")
  | ["add", w, a, b, c, d] =>
    match wsel? w, quad? a b c d with
    | some w, some q => ({ s.op w (.add q) with abs := s.abs.step (w, .add q) }, "ok")
    | _, _ => (s, "bad-op")
  | ["remove", w, a, b, c, d] =>
    match wsel? w, pat? a b c d with
    | some w, some p => ({ s.op w (.remove p) with abs := s.abs.step (w, .remove p) }, "ok")
    | _, _ => (s, "bad-op")
  | "addn" :: w :: r =>
    match wsel? w, quads? r with
    | some w, some qs => (s.gop w (.addN qs), "ok")
    | _, _ => (s, "bad-op")
  | "isub" :: w :: r =>
    match wsel? w, quads? r with
    | some w, some qs => (s.gop w (.isub qs), "ok")
    | _, _ => (s, "bad-op")
  | ["set", w, a, b, c, d] =>
    match wsel? w, quad? a b c d with
    | some w, some q => (s.gop w (.set q), "ok")
    | _, _ => (s, "bad-op")
  | ["rmctx", w, g] =>
    match wsel? w, g.toNat? with
    | some w, some g => (s.gop w (.removeContext g), "ok")
    | _, _ => (s, "bad-op")
  | "addf" :: w :: a :: b :: c :: d :: r =>
    match wsel? w, quad? a b c d, triples? r with
    | some w, some q, some ts => (s.gop w (.addForeign q ts), "ok")
    | _, _, _ => (s, "bad-op")
  | "parse" :: w :: r =>
    match wsel? w, quads? r with
    | some w, some qs => (s.uop w (.parse qs), "ok")
    | _, _ => (s, "bad-op")
  | "upd-insert" :: w :: r =>
    match wsel? w, quads? r with
    | some w, some qs => (s.uop w (.insertData qs), "ok")
    | _, _ => (s, "bad-op")
  | "upd-delete" :: w :: r =>
    match wsel? w, quads? r with
    | some w, some qs => (s.uop w (.deleteData qs), "ok")
    | _, _ => (s, "bad-op")
  | ["upd-delwhere", w, a, b, c, d] =>
    match wsel? w, pat? a b c d with
    | some w, some p => (s.uop w (.deleteWhere p), "ok")
    | _, _ => (s, "bad-op")
  | ["upd-clear", w, g] =>
    match wsel? w, g.toNat? with
    | some w, some g => (s.uop w (.clear g), "ok")
    | _, _ => (s, "bad-op")
  | ["bind", w, a, b, o] =>
    match wsel? w, a.toNat?, b.toNat?, wsel? o with
    | some w, some a, some b, some o => (s.op w (.bind a b o), "ok")
    | _, _, _, _ => (s, "bad-op")
  | ["pass", w] =>
    match wsel? w with
    | some w => (s.op w .pass, "ok")
    | none => (s, "bad-op")
  | ["commit", w] =>
    match wsel? w with
    | some w => (s.boundary w false, "ok")
    | none => (s, "bad-op")
  | ["rollback", w] =>
    match wsel? w with
    | some w => (s.boundary w true, "ok")
    | none => (s, "bad-op")
  | ["obs"] => (s, showQuads s.m.cur)
  | ["obsw"] => (s, showQuads s.abs.cur)
  | ["triples", a, b, c, d] =>
    match pat? a b c d with
    | some p =>
      let ls := (memTriples s.m.cur p).map (fun tc => [tc.1.1, tc.1.2.1, tc.1.2.2] ++ sortNats tc.2)
      (s, " ".intercalate ((sortBy lexLt ls).map showNats))
    | none => (s, "bad-op")
  | ["len", c] =>
    match optNat? c with
    | some g => (s, toString (memLen s.m.cur g))
    | none => (s, "bad-op")
  | ["ctxs"] => (s, showNats (sortNats (memContexts s.m none)))
  | ["tctx", a, b, c] =>
    match a.toNat?, b.toNat?, c.toNat? with
    | some a, some b, some c => (s, showNats (sortNats (memContexts s.m (some (a, b, c)))))
    | _, _, _ => (s, "bad-op")
  | ["bound"] =>
    let x : XW := ⟨s.m, []⟩
    (s, " ".intercalate (Source.all.map (fun src => if (handOut x src).all (fun h => h.2 == Bound.wrapper) then "1" else "0")))
  | ["ns"] => (s, showPairs s.m.b.ns ++ " | " ++ showPairs s.m.b.pf)
  | ["log", w] =>
    match wsel? w with
    | some w => (s, toString (if w then s.log1 else s.log0).length)
    | none => (s, "bad-op")
  | _ => (s, "bad-op")

def main : IO Unit := RV.Proto.run step ({} : DS)
