import RV.C18.Model
import RV.Base.Proto
/-
  C18 driver.  Protocol (terms and graph names are naturals owned by the harness):
    reset                      -> ok          (empty store, both logs empty)
    init s p o c               -> ok          (quad put into the wrapped store directly)
    add w s p o c              -> ok          (through wrapper w ∈ {0,1})
    remove w s p o c           -> ok          (each position a number or `*`)
    commit w | rollback w      -> ok
    obs                        -> the store's quads, sorted:  s,p,o,c s,p,o,c …
    log w                      -> length of wrapper w's reverseOps (diagnostic)
-/
open RV RV.C18 RV.Proto

def showQuads (qs : List Quad) : String :=
  let ls := qs.map (fun q => [q.1, q.2.1, q.2.2.1, q.2.2.2])
  " ".intercalate ((sortBy lexLt ls).map showNats)

def wsel? (w : String) : Option Bool :=
  if w = "0" then some false else if w = "1" then some true else none

def quad? (a b c d : String) : Option Quad := do
  let a ← a.toNat?; let b ← b.toNat?; let c ← c.toNat?; let d ← d.toNat?
  pure (a, b, c, d)

def pat? (a b c d : String) : Option Pat := do
  let a ← optNat? a; let b ← optNat? b; let c ← optNat? c; let d ← optNat? d
  pure (a, b, c, d)

def step (s : St2) : List String → St2 × String
  | ["reset"] => (⟨[], [], []⟩, "ok")
  | ["init", a, b, c, d] =>
    match quad? a b c d with
    | some q => ({ s with cur := sinsert s.cur q }, "ok")
    | none => (s, "bad-op")
  | ["add", w, a, b, c, d] =>
    match wsel? w, quad? a b c d with
    | some w, some q => (s.step (w, .add q), "ok")
    | _, _ => (s, "bad-op")
  | ["remove", w, a, b, c, d] =>
    match wsel? w, pat? a b c d with
    | some w, some p => (s.step (w, .remove p), "ok")
    | _, _ => (s, "bad-op")
  | ["commit", w] =>
    match wsel? w with
    | some w => (s.commit w, "ok")
    | none => (s, "bad-op")
  | ["rollback", w] =>
    match wsel? w with
    | some w => (s.rollback w, "ok")
    | none => (s, "bad-op")
  | ["obs"] => (s, showQuads s.cur)
  | ["log", w] =>
    match wsel? w with
    | some w => (s, toString (s.w w).log.length)
    | none => (s, "bad-op")
  | _ => (s, "bad-op")

def main : IO Unit := RV.Proto.run step (⟨[], [], []⟩ : St2)
