import RV.C18.Lemmas
/-
  C18, two wrappers over one store whose transactions touch disjoint quads.
  `T` is the territory of wrapper `i`; the other wrapper only touches quads outside `T`.
-/
namespace RV.C18

def Op.touches : Op → Quad → Bool
  | .add q', q => q == q'
  | .remove p, q => p.matches q

/-- effect of one operation on the wrapped store, whichever wrapper issues it -/
def curStep (c : List Quad) : Op → List Quad
  | .add q => if q ∈ c then c else sinsert c q
  | .remove p => c.filter (fun q => !p.matches q)

theorem step_cur (s : W) (o : Op) : (s.step o).cur = curStep s.cur o := by
  cases o with
  | add q => simp only [W.step, W.add, curStep]; split <;> rfl
  | remove p => rfl

theorem run_cur (ops : List Op) : ∀ (s : W), (s.run ops).cur = ops.foldl curStep s.cur := by
  induction ops with
  | nil => intro s; rfl
  | cons o ops ih => intro s; simp only [W.run, List.foldl_cons] at *; rw [ih, step_cur]

theorem mem_curStep (c : List Quad) (o : Op) (q : Quad) :
    q ∈ curStep c o ↔ (match o with
      | .add q' => q = q' ∨ q ∈ c
      | .remove p => q ∈ c ∧ p.matches q = false) := by
  cases o with
  | add q' =>
    simp only [curStep]
    split
    · next h => constructor
                · exact Or.inr
                · rintro (e | e)
                  · subst e; exact h
                  · exact e
    · simp only [mem_sinsert]
  | remove p => simp only [curStep, List.mem_filter, Bool.not_eq_true']

theorem mem_curStep_congr {c c' : List Quad} (o : Op) (q : Quad) (h : q ∈ c ↔ q ∈ c') :
    (q ∈ curStep c o ↔ q ∈ curStep c' o) := by
  rw [mem_curStep, mem_curStep]
  cases o with
  | add q' => simp only [h]
  | remove p => simp only [h]

theorem mem_curStep_untouched (c : List Quad) (o : Op) (q : Quad) (h : o.touches q = false) :
    (q ∈ curStep c o ↔ q ∈ c) := by
  rw [mem_curStep]
  cases o with
  | add q' =>
    simp only [Op.touches, beq_eq_false_iff_ne, ne_eq] at h
    simp [h]
  | remove p =>
    simp only [Op.touches] at h
    simp [h]

theorem mem_logRemovals (ms : List Quad) : ∀ (log : List Entry) (e : Entry),
    e ∈ logRemovals log ms → e ∈ log ∨ e.1 ∈ ms := by
  induction ms with
  | nil => intro log e h; exact Or.inl h
  | cons m ms ih =>
    intro log e h
    simp only [logRemovals] at h
    rcases ih _ e h with h1 | h1
    · unfold cancelOr at h1
      split at h1
      · exact Or.inl (List.mem_of_mem_erase h1)
      · rcases List.mem_append.mp h1 with h2 | h2
        · exact Or.inl h2
        · simp at h2; subst h2; exact Or.inr (by simp)
    · exact Or.inr (List.mem_cons_of_mem _ h1)

theorem log_step_touches (s : W) (o : Op) (e : Entry) (h : e ∈ (s.step o).log) :
    e ∈ s.log ∨ o.touches e.1 = true := by
  cases o with
  | add q =>
    simp only [W.step, W.add] at h
    split at h
    · exact Or.inl h
    · simp only at h
      unfold cancelOr at h
      split at h
      · exact Or.inl (List.mem_of_mem_erase h)
      · rcases List.mem_append.mp h with h2 | h2
        · exact Or.inl h2
        · simp at h2; subst h2; exact Or.inr (by simp [Op.touches])
  | remove p =>
    simp only [W.step, W.remove] at h
    rcases mem_logRemovals _ _ e h with h1 | h1
    · exact Or.inl h1
    · exact Or.inr (by simpa [Op.touches] using (List.mem_filter.mp h1).2)

/-- invariant of wrapper `i` relative to the evolving image `I` of the *other* wrapper's work -/
structure J (T : Quad → Bool) (i : Bool) (s : St2) (I : List Quad) : Prop where
  inv : Inv I s.cur (s.w i).log
  terr : ∀ e ∈ (s.w i).log, T e.1 = true
  nodup : s.cur.Nodup

theorem w_put_same (s : St2) (i : Bool) (w : W) : ((s.put i w).w i) = w := by
  cases i <;> simp [St2.put, St2.w]

theorem w_put_other_log (s : St2) (i j : Bool) (w : W) (h : i ≠ j) : ((s.put j w).w i).log = (s.w i).log := by
  cases i <;> cases j <;> simp_all [St2.put, St2.w]

theorem put_cur (s : St2) (i : Bool) (w : W) : (s.put i w).cur = w.cur := by
  cases i <;> simp [St2.put]

theorem w_cur (s : St2) (i : Bool) : (s.w i).cur = s.cur := by
  cases i <;> simp [St2.w]

theorem J_step {T : Quad → Bool} {i : Bool} {s : St2} {I : List Quad} (h : J T i s I)
    (j : Bool) (o : Op)
    (hd : ∀ q, o.touches q = true → (T q = true ↔ j = i)) :
    J T i (s.step (j, o)) (if j = i then I else curStep I o) := by
  by_cases hji : j = i
  · subst hji
    simp only [if_true]
    have hinv : Inv I (s.w j).cur (s.w j).log := by rw [w_cur]; exact h.inv
    have hnd : (s.w j).cur.Nodup := by rw [w_cur]; exact h.nodup
    refine ⟨?_, ?_, ?_⟩
    · simp only [St2.step, w_put_same, put_cur]
      exact inv_step hinv hnd o
    · intro e he
      simp only [St2.step, w_put_same] at he
      rcases log_step_touches _ o e he with h1 | h1
      · exact h.terr e h1
      · exact (hd e.1 h1).mpr rfl
    · simp only [St2.step, put_cur]
      exact nodup_step hnd o
  · simp only [if_neg hji]
    have hij : i ≠ j := fun e => hji e.symm
    have hcur : (s.step (j, o)).cur = curStep s.cur o := by
      simp only [St2.step, put_cur, step_cur, w_cur]
    have hlog : ((s.step (j, o)).w i).log = (s.w i).log := by
      simp only [St2.step]; exact w_put_other_log s i j _ hij
    have hunt : ∀ q, T q = true → o.touches q = false := by
      intro q hq
      cases ht : o.touches q with
      | false => rfl
      | true => exact absurd ((hd q ht).mp hq) hji
    refine ⟨?_, ?_, ?_⟩
    · rw [hcur, hlog]
      refine ⟨?_, ?_, ?_, h.inv.nodup⟩
      · intro q hq
        have hT := h.terr _ hq
        have := h.inv.rem q hq
        rw [mem_curStep_untouched _ _ _ (hunt q hT), mem_curStep_untouched _ _ _ (hunt q hT)]
        exact this
      · intro q hq
        have hT := h.terr _ hq
        have := h.inv.add q hq
        rw [mem_curStep_untouched _ _ _ (hunt q hT), mem_curStep_untouched _ _ _ (hunt q hT)]
        exact this
      · intro q h1 h2
        exact mem_curStep_congr o q (h.inv.none q h1 h2)
    · rw [hlog]; exact h.terr
    · rw [hcur]
      have := nodup_step (s := ⟨s.cur, []⟩) h.nodup o
      rwa [step_cur] at this

/-- the other wrapper's operations, applied alone -/
def othersImage (i : Bool) (I : List Quad) (ops : List (Bool × Op)) : List Quad :=
  ops.foldl (fun I jo => if jo.1 = i then I else curStep I jo.2) I

theorem J_run {T : Quad → Bool} {i : Bool} (ops : List (Bool × Op)) :
    ∀ (s : St2) (I : List Quad), J T i s I →
      (∀ jo ∈ ops, ∀ q, jo.2.touches q = true → (T q = true ↔ jo.1 = i)) →
      J T i (s.run ops) (othersImage i I ops) := by
  induction ops with
  | nil => intro s I h _; exact h
  | cons jo ops ih =>
    intro s I h hd
    obtain ⟨j, o⟩ := jo
    simp only [St2.run, List.foldl_cons, othersImage] at *
    exact ih _ _ (J_step h j o (hd (j, o) (by simp))) (fun jo hjo => hd jo (by simp [hjo]))

theorem othersImage_eq (i : Bool) (ops : List (Bool × Op)) : ∀ (I : List Quad),
    othersImage i I ops = ((ops.filter (fun jo => jo.1 != i)).map (·.2)).foldl curStep I := by
  induction ops with
  | nil => intro I; rfl
  | cons jo ops ih =>
    intro I
    obtain ⟨j, o⟩ := jo
    by_cases hji : j = i
    · subst hji
      simp only [othersImage, List.foldl_cons, if_true] at *
      rw [List.filter_cons_of_neg (by simp)]
      exact ih I
    · simp only [othersImage, List.foldl_cons, if_neg hji] at *
      rw [List.filter_cons_of_pos (by simpa using hji)]
      simp only [List.map_cons, List.foldl_cons]
      exact ih _

end RV.C18
