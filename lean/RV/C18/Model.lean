import RV.Base.SetList
/-
  C18 — model of `rdflib/plugins/stores/auditable.py` (AuditableStore).

  The wrapped store is represented by what C01/C02 show it to be: a finite set
  of quads `(s, p, o, graph)`.  The wrapper keeps `reverseOps`, a Python list of
  `(s, p, o, ctxId, "add" | "remove")` entries.

  * `add`      : no-op if the quad is present; otherwise cancel a pending
                 `(q, "add")` entry or, failing that, append `(q, "remove")`;
                 then add to the store.            (`try: remove … except: append`)
  * `remove`   : the pattern (wildcards = `none`, graph may be a wildcard too) is
                 expanded to the quads present; for each, cancel a pending
                 `(q, "remove")` or append `(q, "add")`; then remove from the store.
  * `rollback` : replay `reverseOps` front to back, then clear it.
  * `commit`   : clear `reverseOps`.

  Several wrappers over one store = several logs over one `cur` (`St.logs`).
  `list.remove(x)` removes the first occurrence = `List.erase`.
-/
namespace RV.C18

abbrev Quad := Nat × Nat × Nat × Nat
abbrev Pat := Option Nat × Option Nat × Option Nat × Option Nat

inductive Undo | add | remove
  deriving DecidableEq, Repr

abbrev Entry := Quad × Undo

def matchPos (p : Option Nat) (x : Nat) : Bool :=
  match p with
  | none => true
  | some y => x == y

def Pat.matches (p : Pat) (q : Quad) : Bool :=
  matchPos p.1 q.1 && matchPos p.2.1 q.2.1 && matchPos p.2.2.1 q.2.2.1 && matchPos p.2.2.2 q.2.2.2

/-- `try: log.remove((q, cancel)) except ValueError: log.append((q, other))` -/
def cancelOr (log : List Entry) (q : Quad) (cancel other : Undo) : List Entry :=
  if (q, cancel) ∈ log then log.erase (q, cancel) else log ++ [(q, other)]

/-- The pre-fix code of `add` (kept to document the defect, never used by the model):
    `log.append((q,"remove")); try: log.remove((q,"add")) except ValueError: pass` -/
def appendAndCancel (log : List Entry) (q : Quad) : List Entry :=
  (log ++ [(q, Undo.remove)]).erase (q, Undo.add)

structure W where
  cur : List Quad          -- the wrapped store, as a set
  log : List Entry         -- reverseOps of this wrapper

def W.add (s : W) (q : Quad) : W :=
  if q ∈ s.cur then s
  else { cur := sinsert s.cur q, log := cancelOr s.log q .add .remove }

/-- log bookkeeping of `remove` over the list of quads about to be removed -/
def logRemovals (log : List Entry) : List Quad → List Entry
  | [] => log
  | q :: qs => logRemovals (cancelOr log q .remove .add) qs

def W.remove (s : W) (p : Pat) : W :=
  let ms := s.cur.filter (fun q => p.matches q)
  { cur := s.cur.filter (fun q => !p.matches q), log := logRemovals s.log ms }

def replay (cur : List Quad) : List Entry → List Quad
  | [] => cur
  | (q, .add) :: es => replay (sinsert cur q) es
  | (q, .remove) :: es => replay (sremove cur q) es

def W.rollback (s : W) : W := { cur := replay s.cur s.log, log := [] }
def W.commit (s : W) : W := { s with log := [] }

inductive Op
  | add (q : Quad)
  | remove (p : Pat)
  deriving Repr

def W.step (s : W) : Op → W
  | .add q => s.add q
  | .remove p => s.remove p

def W.run (s : W) (ops : List Op) : W := ops.foldl W.step s

/-! ### two wrappers over one store -/

structure St2 where
  cur : List Quad
  log0 : List Entry
  log1 : List Entry

def St2.w (s : St2) (i : Bool) : W := ⟨s.cur, if i then s.log1 else s.log0⟩
def St2.put (s : St2) (i : Bool) (w : W) : St2 :=
  if i then { s with cur := w.cur, log1 := w.log } else { s with cur := w.cur, log0 := w.log }

def St2.step (s : St2) (iop : Bool × Op) : St2 := s.put iop.1 ((s.w iop.1).step iop.2)
def St2.run (s : St2) (ops : List (Bool × Op)) : St2 := ops.foldl St2.step s
def St2.rollback (s : St2) (i : Bool) : St2 := s.put i (s.w i).rollback
def St2.commit (s : St2) (i : Bool) : St2 := s.put i (s.w i).commit

end RV.C18
