import RV.C18.Props
open RV.C18
#print axioms rollback_restores
#print axioms commit_keeps
#print axioms rollback_after_boundary_noop
#print axioms history_refines_spec
#print axioms two_wrappers_disjoint
#print axioms buggy_add_breaks_rollback
