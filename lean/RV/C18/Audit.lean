import RV.C18.Props
open RV.C18
#print axioms rollback_restores
#print axioms commit_keeps
#print axioms rollback_after_boundary_noop
#print axioms history_refines_spec
#print axioms two_wrappers_disjoint
#print axioms buggy_add_breaks_rollback
#print axioms code_history_refines_spec
#print axioms code_rollback_restores
#print axioms code_boundaries_and_frames
#print axioms code_model_agrees_with_abstract
#print axioms falsy_graph_name_witness
#print axioms binding_survives_rollback
#print axioms nested_outer_refines_spec
#print axioms nested_inner_rollback_restores
#print axioms contexts_kept_by_rollback
#print axioms new_graph_name_survives_rollback
#print axioms code_two_wrappers_disjoint
#print axioms graph_level_history_refines_spec
#print axioms graph_level_ops_meaning
#print axioms conjunctive_context_broke_rollback
#print axioms handed_out_graphs_log
#print axioms bypass_breaks_rollback
#print axioms every_source_hands_out_wrapper_graphs
#print axioms update_history_refines_spec
