import RV.C18.Model
/-
  Helper lemmas for C18: the undo-log invariant and its preservation.
-/
namespace RV.C18

/-- The undo-log invariant relative to the content `init` at transaction begin.
    Only *membership* in `cur` is used, so it transfers along `SetEq`. -/
structure Inv (init cur : List Quad) (log : List Entry) : Prop where
  rem : ∀ q, (q, Undo.remove) ∈ log → q ∉ init ∧ q ∈ cur
  add : ∀ q, (q, Undo.add) ∈ log → q ∈ init ∧ q ∉ cur
  none : ∀ q, (q, Undo.remove) ∉ log → (q, Undo.add) ∉ log → (q ∈ init ↔ q ∈ cur)
  nodup : log.Nodup

theorem Inv.congr {init cur cur' : List Quad} {log : List Entry}
    (h : Inv init cur log) (e : SetEq cur cur') : Inv init cur' log :=
  ⟨fun q hq => ⟨(h.rem q hq).1, (e q).1 (h.rem q hq).2⟩,
   fun q hq => ⟨(h.add q hq).1, fun hc => (h.add q hq).2 ((e q).2 hc)⟩,
   fun q h1 h2 => (h.none q h1 h2).trans (e q),
   h.nodup⟩

theorem Inv.congr_init {init init' cur : List Quad} {log : List Entry}
    (h : Inv init cur log) (e : SetEq init init') : Inv init' cur log :=
  ⟨fun q hq => ⟨fun hc => (h.rem q hq).1 ((e q).2 hc), (h.rem q hq).2⟩,
   fun q hq => ⟨(e q).1 (h.add q hq).1, (h.add q hq).2⟩,
   fun q h1 h2 => (e q).symm.trans (h.none q h1 h2),
   h.nodup⟩

theorem inv_begin (cur : List Quad) : Inv cur cur [] :=
  ⟨by simp, by simp, by simp, by simp⟩

theorem mem_cancelOr {log : List Entry} (hnd : log.Nodup) (q : Quad) (c o : Undo) (e : Entry) :
    e ∈ cancelOr log q c o ↔
      if (q, c) ∈ log then (e ≠ (q, c) ∧ e ∈ log) else (e ∈ log ∨ e = (q, o)) := by
  unfold cancelOr
  split
  · exact hnd.mem_erase_iff
  · simp [List.mem_append]

theorem nodup_cancelOr {log : List Entry} (hnd : log.Nodup) (q : Quad) (c o : Undo)
    (hno : (q, c) ∉ log → (q, o) ∉ log) : (cancelOr log q c o).Nodup := by
  unfold cancelOr
  split
  · exact hnd.erase _
  · next h =>
    rw [List.nodup_append]
    refine ⟨hnd, by simp, ?_⟩
    intro a ha b hb
    simp at hb; subst hb
    intro e; subst e; exact hno h ha

/-- one quad added through the wrapper (quad absent) -/
theorem inv_add1 {init cur : List Quad} {log : List Entry} (h : Inv init cur log)
    (q : Quad) (hq : q ∉ cur) :
    Inv init (sinsert cur q) (cancelOr log q .add .remove) := by
  have hnr : (q, Undo.remove) ∉ log := fun hc => hq (h.rem q hc).2
  have hmem := mem_cancelOr h.nodup q .add .remove
  refine ⟨?_, ?_, ?_, nodup_cancelOr h.nodup q _ _ (fun _ => hnr)⟩
  · intro x hx
    rw [hmem] at hx
    split at hx
    · next hadd =>
      have := h.rem x hx.2
      exact ⟨this.1, mem_sinsert.mpr (Or.inr this.2)⟩
    · next hadd =>
      rcases hx with hx | hx
      · have := h.rem x hx
        exact ⟨this.1, mem_sinsert.mpr (Or.inr this.2)⟩
      · have hxq : x = q := by injection hx
        subst hxq
        exact ⟨fun hi => hq ((h.none x hnr hadd).1 hi), mem_sinsert.mpr (Or.inl rfl)⟩
  · intro x hx
    rw [hmem] at hx
    split at hx
    · next hadd =>
      have hxq : x ≠ q := fun e => hx.1 (by rw [e])
      have := h.add x hx.2
      exact ⟨this.1, fun hc => by
        rcases mem_sinsert.mp hc with hc | hc
        · exact hxq hc
        · exact this.2 hc⟩
    · next hadd =>
      rcases hx with hx | hx
      · have hxq : x ≠ q := fun e => hadd (by rw [← e]; exact hx)
        have := h.add x hx
        exact ⟨this.1, fun hc => by
          rcases mem_sinsert.mp hc with hc | hc
          · exact hxq hc
          · exact this.2 hc⟩
      · injection hx with _ h2; cases h2
  · intro x hr ha
    rw [hmem] at hr ha
    by_cases hxq : x = q
    · subst hxq
      split at hr
      · next hadd =>
        simp only [mem_sinsert, true_or, iff_true]
        exact (h.add x hadd).1
      · exact absurd (Or.inr rfl) hr
    · have hr' : (x, Undo.remove) ∉ log := by
        split at hr
        · exact fun hc => hr ⟨by simp, hc⟩
        · exact fun hc => hr (Or.inl hc)
      have ha' : (x, Undo.add) ∉ log := by
        split at ha
        · exact fun hc => ha ⟨by simp [hxq], hc⟩
        · exact fun hc => ha (Or.inl hc)
      rw [h.none x hr' ha']
      simp [hxq]

/-- one quad removed through the wrapper (quad present) -/
theorem inv_rem1 {init cur : List Quad} {log : List Entry} (h : Inv init cur log)
    (q : Quad) (hq : q ∈ cur) :
    Inv init (sremove cur q) (cancelOr log q .remove .add) := by
  have hna : (q, Undo.add) ∉ log := fun hc => (h.add q hc).2 hq
  have hmem := mem_cancelOr h.nodup q .remove .add
  refine ⟨?_, ?_, ?_, nodup_cancelOr h.nodup q _ _ (fun _ => hna)⟩
  · intro x hx
    rw [hmem] at hx
    split at hx
    · next hrem =>
      have hxq : x ≠ q := fun e => hx.1 (by rw [e])
      have := h.rem x hx.2
      exact ⟨this.1, mem_sremove.mpr ⟨hxq, this.2⟩⟩
    · next hrem =>
      rcases hx with hx | hx
      · have hxq : x ≠ q := fun e => hrem (by rw [← e]; exact hx)
        have := h.rem x hx
        exact ⟨this.1, mem_sremove.mpr ⟨hxq, this.2⟩⟩
      · injection hx with _ h2; cases h2
  · intro x hx
    rw [hmem] at hx
    split at hx
    · next hrem =>
      have := h.add x hx.2
      exact ⟨this.1, fun hc => this.2 (mem_sremove.mp hc).2⟩
    · next hrem =>
      rcases hx with hx | hx
      · have := h.add x hx
        exact ⟨this.1, fun hc => this.2 (mem_sremove.mp hc).2⟩
      · have hxq : x = q := by injection hx
        subst hxq
        exact ⟨(h.none x hrem hna).2 hq, fun hc => (mem_sremove.mp hc).1 rfl⟩
  · intro x hr ha
    rw [hmem] at hr ha
    by_cases hxq : x = q
    · subst hxq
      split at ha
      · next hrem =>
        have := (h.rem x hrem).1
        simp [this]
      · exact absurd (Or.inr rfl) ha
    · have hr' : (x, Undo.remove) ∉ log := by
        split at hr
        · exact fun hc => hr ⟨by simp [hxq], hc⟩
        · exact fun hc => hr (Or.inl hc)
      have ha' : (x, Undo.add) ∉ log := by
        split at ha
        · exact fun hc => ha ⟨by simp, hc⟩
        · exact fun hc => ha (Or.inl hc)
      rw [h.none x hr' ha']
      simp [hxq]

theorem mem_foldl_sremove (ms : List Quad) : ∀ (cur : List Quad) (x : Quad),
    x ∈ ms.foldl sremove cur ↔ x ∈ cur ∧ x ∉ ms := by
  induction ms with
  | nil => simp
  | cons m ms ih =>
    intro cur x
    simp only [List.foldl_cons, ih, mem_sremove, List.mem_cons, not_or]
    constructor
    · rintro ⟨⟨h1, h2⟩, h3⟩; exact ⟨h2, h1, h3⟩
    · rintro ⟨h2, h1, h3⟩; exact ⟨⟨h1, h2⟩, h3⟩

theorem inv_logRemovals {init : List Quad} (ms : List Quad) (hnd : ms.Nodup) :
    ∀ (cur : List Quad) (log : List Entry), Inv init cur log → (∀ q ∈ ms, q ∈ cur) →
      Inv init (ms.foldl sremove cur) (logRemovals log ms) := by
  induction ms with
  | nil => intro cur log h _; simpa [logRemovals] using h
  | cons m ms ih =>
    intro cur log h hall
    rw [List.nodup_cons] at hnd
    simp only [List.foldl_cons, logRemovals]
    apply ih hnd.2 _ _ (inv_rem1 h m (hall m (by simp)))
    intro q hq
    refine mem_sremove.mpr ⟨?_, hall q (by simp [hq])⟩
    intro e; subst e; exact hnd.1 hq

/-- `W.add` preserves the invariant -/
theorem inv_add {init : List Quad} {s : W} (h : Inv init s.cur s.log) (q : Quad) :
    Inv init (s.add q).cur (s.add q).log := by
  unfold W.add
  split
  · exact h
  · next hq => exact inv_add1 h q hq

/-- `W.remove` preserves the invariant (the store holds each quad once) -/
theorem inv_remove {init : List Quad} {s : W} (h : Inv init s.cur s.log) (hnd : s.cur.Nodup)
    (p : Pat) : Inv init (s.remove p).cur (s.remove p).log := by
  unfold W.remove
  simp only
  have h1 := inv_logRemovals (init := init) (s.cur.filter (fun q => p.matches q))
    (hnd.filter _) s.cur s.log h (by intro q hq; exact (List.mem_filter.mp hq).1)
  refine h1.congr ?_
  intro x
  rw [mem_foldl_sremove]
  simp only [List.mem_filter, Bool.not_eq_true', not_and, Bool.not_eq_true]
  constructor
  · rintro ⟨h1, h2⟩; exact ⟨h1, h2 h1⟩
  · rintro ⟨h1, h2⟩; exact ⟨h1, fun _ => h2⟩

theorem nodup_step {s : W} (hnd : s.cur.Nodup) (op : Op) : (s.step op).cur.Nodup := by
  cases op with
  | add q =>
    simp only [W.step, W.add]
    split
    · exact hnd
    · exact nodup_sinsert hnd
  | remove p => exact hnd.filter _

theorem inv_step {init : List Quad} {s : W} (h : Inv init s.cur s.log) (hnd : s.cur.Nodup)
    (op : Op) : Inv init (s.step op).cur (s.step op).log := by
  cases op with
  | add q => exact inv_add h q
  | remove p => exact inv_remove h hnd p

theorem inv_run {init : List Quad} (ops : List Op) : ∀ (s : W), Inv init s.cur s.log → s.cur.Nodup →
    Inv init (s.run ops).cur (s.run ops).log ∧ (s.run ops).cur.Nodup := by
  induction ops with
  | nil => intro s h hnd; exact ⟨h, hnd⟩
  | cons op ops ih =>
    intro s h hnd
    exact ih (s.step op) (inv_step h hnd op) (nodup_step hnd op)

/-- replaying a log that satisfies the invariant restores `init` -/
theorem mem_replay (log : List Entry) : ∀ (cur : List Quad) (x : Quad),
    log.Nodup → ¬ ((x, Undo.add) ∈ log ∧ (x, Undo.remove) ∈ log) →
    (x ∈ replay cur log ↔
      if (x, Undo.add) ∈ log then True else if (x, Undo.remove) ∈ log then False else x ∈ cur) := by
  induction log with
  | nil => intro cur x _ _; simp [replay]
  | cons e es ih =>
    intro cur x hnd hex
    rw [List.nodup_cons] at hnd
    obtain ⟨q, u⟩ := e
    have hex' : ¬ ((x, Undo.add) ∈ es ∧ (x, Undo.remove) ∈ es) :=
      fun hc => hex ⟨List.mem_cons_of_mem _ hc.1, List.mem_cons_of_mem _ hc.2⟩
    cases u with
    | add =>
      simp only [replay]
      rw [ih _ x hnd.2 hex']
      by_cases hxq : x = q
      · subst hxq
        have h1 : (x, Undo.remove) ∉ es := fun hc => hex ⟨by simp, List.mem_cons_of_mem _ hc⟩
        simp [h1, hnd.1]
      · have : (x, Undo.add) ∈ (q, Undo.add) :: es ↔ (x, Undo.add) ∈ es := by simp [hxq]
        have h2 : (x, Undo.remove) ∈ (q, Undo.add) :: es ↔ (x, Undo.remove) ∈ es := by simp
        simp only [this, h2, mem_sinsert, hxq, false_or]
    | remove =>
      simp only [replay]
      rw [ih _ x hnd.2 hex']
      by_cases hxq : x = q
      · subst hxq
        have h1 : (x, Undo.add) ∉ es := fun hc => hex ⟨List.mem_cons_of_mem _ hc, by simp⟩
        simp [h1, hnd.1]
      · have : (x, Undo.add) ∈ (q, Undo.remove) :: es ↔ (x, Undo.add) ∈ es := by simp
        have h2 : (x, Undo.remove) ∈ (q, Undo.remove) :: es ↔ (x, Undo.remove) ∈ es := by simp [hxq]
        simp only [this, h2, mem_sremove, hxq, ne_eq, not_false_eq_true, true_and]

theorem replay_restores {init cur : List Quad} {log : List Entry} (h : Inv init cur log) :
    SetEq (replay cur log) init := by
  intro x
  have hex : ¬ ((x, Undo.add) ∈ log ∧ (x, Undo.remove) ∈ log) :=
    fun hc => (h.rem x hc.2).1 (h.add x hc.1).1
  rw [mem_replay log cur x h.nodup hex]
  by_cases ha : (x, Undo.add) ∈ log
  · simp [ha, (h.add x ha).1]
  · by_cases hr : (x, Undo.remove) ∈ log
    · simp [ha, hr, (h.rem x hr).1]
    · simp [ha, hr, h.none x hr ha]

end RV.C18
