import RV.C18.Lemmas
import RV.C18.TwoWrappers
import RV.C18.XLemmas
import RV.C18.XTwo
/-
  C18 — property theorems (statements first, as `def … : Prop`, then the proofs).

  "Rollback restores, commit keeps: the auditable store is atomic over any history."
-/
namespace RV.C18

/-! ### Specification: a transaction is a snapshot -/

/-- The abstract transactional set: `base` = content when the transaction began. -/
structure Spec where
  base : List Quad
  cur : List Quad

inductive Cmd
  | op (o : Op)
  | commit
  | rollback
  deriving Repr

def Spec.step (s : Spec) : Cmd → Spec
  | .op (.add q) => { s with cur := sinsert s.cur q }
  | .op (.remove p) => { s with cur := s.cur.filter (fun q => !p.matches q) }
  | .commit => { s with base := s.cur }
  | .rollback => { s with cur := s.base }

def W.cmd (s : W) : Cmd → W
  | .op o => s.step o
  | .commit => s.commit
  | .rollback => s.rollback

def W.runCmds (s : W) (cs : List Cmd) : W := cs.foldl W.cmd s
def Spec.run (s : Spec) (cs : List Cmd) : Spec := cs.foldl Spec.step s

/-! ### Statements -/

/-- After any history of adds / pattern removes since the transaction began,
    `rollback()` leaves exactly the content the store had at the beginning. -/
def Statement_rollback_restores : Prop :=
  ∀ (init : List Quad) (ops : List Op), init.Nodup →
    SetEq ((W.run ⟨init, []⟩ ops).rollback).cur init ∧ ((W.run ⟨init, []⟩ ops).rollback).log = []

/-- `commit()` leaves exactly the content reached. -/
def Statement_commit_keeps : Prop :=
  ∀ (s : W), s.commit.cur = s.cur ∧ s.commit.log = []

/-- A further rollback after a commit or a rollback changes nothing. -/
def Statement_rollback_after_boundary_noop : Prop :=
  ∀ (s : W), s.commit.rollback = s.commit ∧ s.rollback.rollback = s.rollback

/-- Every history, with commit/rollback placed anywhere: the wrapped store always
    holds what the snapshot specification says. -/
def Statement_history_refines_spec : Prop :=
  ∀ (init : List Quad) (cs : List Cmd), init.Nodup →
    SetEq (W.runCmds ⟨init, []⟩ cs).cur (Spec.run ⟨init, init⟩ cs).cur

/-! ### Proofs -/

theorem rollback_restores : Statement_rollback_restores := by
  intro init ops hnd
  have h := (inv_run ops ⟨init, []⟩ (inv_begin init) hnd).1
  exact ⟨replay_restores h, rfl⟩

theorem commit_keeps : Statement_commit_keeps := fun _ => ⟨rfl, rfl⟩

theorem rollback_after_boundary_noop : Statement_rollback_after_boundary_noop := by
  intro s
  constructor <;> simp [W.rollback, W.commit, replay]

theorem nodup_replay (log : List Entry) : ∀ (cur : List Quad), cur.Nodup → (replay cur log).Nodup := by
  induction log with
  | nil => intro cur h; simpa [replay]
  | cons e es ih =>
    intro cur h
    obtain ⟨q, u⟩ := e
    cases u with
    | add => exact ih _ (nodup_sinsert h)
    | remove => exact ih _ (nodup_sremove h)

/-- simulation relation between the wrapper and the snapshot spec -/
structure Sim (s : W) (sp : Spec) : Prop where
  cur : SetEq s.cur sp.cur
  inv : Inv sp.base s.cur s.log
  nodup : s.cur.Nodup

theorem sim_step {s : W} {sp : Spec} (h : Sim s sp) (c : Cmd) : Sim (s.cmd c) (sp.step c) := by
  cases c with
  | op o =>
    cases o with
    | add q =>
      refine ⟨?_, inv_step h.inv h.nodup (.add q), nodup_step h.nodup (.add q)⟩
      intro x
      simp only [W.cmd, W.step, W.add, Spec.step]
      split
      · next hq =>
        rw [mem_sinsert, ← h.cur x]
        constructor
        · exact Or.inr
        · rintro (e | e)
          · subst e; exact hq
          · exact e
      · simp only [mem_sinsert, h.cur x]
    | remove p =>
      refine ⟨?_, inv_step h.inv h.nodup (.remove p), nodup_step h.nodup (.remove p)⟩
      intro x
      simp only [W.cmd, W.step, W.remove, Spec.step, List.mem_filter, h.cur x]
  | commit =>
    refine ⟨h.cur, ?_, h.nodup⟩
    simp only [W.cmd, W.commit, Spec.step]
    exact (inv_begin s.cur).congr_init h.cur
  | rollback =>
    refine ⟨?_, ?_, nodup_replay _ _ h.nodup⟩
    · simp only [W.cmd, W.rollback, Spec.step]
      exact replay_restores h.inv
    · simp only [W.cmd, W.rollback, Spec.step]
      exact (inv_begin sp.base).congr (SetEq.symm (replay_restores h.inv))

theorem sim_run (cs : List Cmd) : ∀ (s : W) (sp : Spec), Sim s sp → Sim (s.runCmds cs) (sp.run cs) := by
  induction cs with
  | nil => intro s sp h; exact h
  | cons c cs ih => intro s sp h; exact ih _ _ (sim_step h c)

theorem history_refines_spec : Statement_history_refines_spec := by
  intro init cs hnd
  exact (sim_run cs ⟨init, []⟩ ⟨init, init⟩ ⟨SetEq.refl _, inv_begin init, hnd⟩).cur

/-! ### Two wrappers over one store, touching disjoint quads -/

/-- Two wrappers share one store.  Every operation of wrapper `i` touches only quads inside a
    territory `T`, every operation of the other wrapper only quads outside it (an `add q`
    touches `q`; a `remove pat` touches every quad `pat` can match — the static, pattern-level
    reading of "transactions touch disjoint triples").  Then, for EVERY interleaving `ops`,
    rolling back wrapper `i` leaves exactly what the other wrapper's operations alone
    produce from the initial content: the other's changes are intact, `i`'s are undone. -/
def Statement_two_wrappers_disjoint : Prop :=
  ∀ (init : List Quad) (i : Bool) (T : Quad → Bool) (ops : List (Bool × Op)), init.Nodup →
    (∀ jo ∈ ops, ∀ q, jo.2.touches q = true → (T q = true ↔ jo.1 = i)) →
    SetEq (((St2.run ⟨init, [], []⟩ ops).rollback i).cur)
          ((W.run ⟨init, []⟩ ((ops.filter (fun jo => jo.1 != i)).map (·.2))).cur)

theorem two_wrappers_disjoint : Statement_two_wrappers_disjoint := by
  intro init i T ops hnd hd
  have h0 : J T i ⟨init, [], []⟩ init :=
    ⟨by cases i <;> exact inv_begin init, by cases i <;> simp [St2.w], hnd⟩
  have h := J_run ops _ _ h0 hd
  rw [run_cur, ← othersImage_eq]
  simp only [St2.rollback, put_cur, W.rollback]
  rw [w_cur]
  exact replay_restores h.inv

/-- non-vacuity: wrapper 0 works on subject 1, wrapper 1 on subject 2, interleaved -/
example :
    let ops : List (Bool × Op) :=
      [(false, .remove (some 1, none, none, none)), (true, .add (2, 5, 5, 9)),
       (false, .add (1, 6, 6, 9)), (true, .remove (some 2, some 2, none, none))]
    (((St2.run ⟨[(1, 2, 3, 9), (2, 2, 3, 9)], [], []⟩ ops).rollback false).cur = [(2, 5, 5, 9), (1, 2, 3, 9)])
    ∧ (∀ jo ∈ ops, ∀ q, jo.2.touches q = true → ((q.1 == 1) = true ↔ jo.1 = false)) := by
  refine ⟨by decide, ?_⟩
  intro jo hjo q hq
  simp only [List.mem_cons, List.not_mem_nil, or_false] at hjo
  rcases hjo with rfl | rfl | rfl | rfl <;>
    simp_all [Op.touches, Pat.matches, matchPos]

/-! ### Non-vacuity: a concrete history that exercises cancel and append paths -/

def exInit : List Quad := [(1, 2, 3, 9), (4, 2, 3, 9)]
def exOps : List Op :=
  [.remove (some 1, none, none, none), .add (1, 2, 3, 9), .add (7, 7, 7, 8),
   .remove (none, some 7, none, some 8), .remove (none, none, some 3, none)]

example : exInit.Nodup := by decide
example : (W.run ⟨exInit, []⟩ exOps).cur = [] ∧ (W.run ⟨exInit, []⟩ exOps).log.length = 2 := by decide
example : ((W.run ⟨exInit, []⟩ exOps).rollback).cur = [(4, 2, 3, 9), (1, 2, 3, 9)] := by decide

/-! ### The defect of the pinned code (before the `fix:` commit), kept as a regression witness.
    With `append-and-cancel` in `add`, remove-then-re-add of a present quad leaves a
    spurious `remove` entry and rollback deletes a quad that was there at the beginning. -/

def W.addBuggy (s : W) (q : Quad) : W :=
  if q ∈ s.cur then s
  else { cur := sinsert s.cur q, log := appendAndCancel s.log q }

theorem buggy_add_breaks_rollback :
    ¬ SetEq (((W.remove ⟨[(1, 2, 3, 9)], []⟩ (some 1, some 2, some 3, some 9)).addBuggy (1, 2, 3, 9)).rollback).cur
        [(1, 2, 3, 9)] := by
  intro h
  have := (h (1, 2, 3, 9)).2 (by simp)
  revert this
  decide

/-! ## Round g — the code of `auditable.py` branch by branch (`XModel.lean`)

  The wrapper's `add` / `remove` / `rollback` as written (presence tests through `store.triples`, the
  three branches of `remove` with their different enumerations of the quads to log, early returns,
  replay through `store.add` / `store.remove`), the pass-through methods (`bind`, `open`, `close`,
  `destroy`, `query`: `XOp.bind`, `XOp.pass`; the reads are pure functions of the state), and a wrapper
  over a wrapper. -/

/-- The specification, extended by what the statement does NOT make transactional: namespace bindings
    go straight to the wrapped store and stay there whatever happens to the transaction. -/
structure SpecX where
  base : List Quad
  cur : List Quad
  b : Binds

def SpecX.step (s : SpecX) : XCmd → SpecX
  | .op (.add q) => { s with cur := sinsert s.cur q }
  | .op (.remove p) => { s with cur := s.cur.filter (fun q => !p.matches q) }
  | .op (.bind a n o) => { s with b := s.b.bind a n o }
  | .op .pass => s
  | .commit => { s with base := s.cur }
  | .rollback => { s with cur := s.base }

def SpecX.run (s : SpecX) (cs : List XCmd) : SpecX := cs.foldl SpecX.step s

/-- Every history over the extended operation set, boundaries anywhere, graph names that a `Graph` can
    carry: the wrapped store holds exactly the quads the snapshot specification says, and exactly the
    bindings the (non-transactional) specification says. -/
def Statement_code_history_refines_spec : Prop :=
  ∀ (m0 : Mem) (cs : List XCmd), m0.cur.Nodup → (∀ c ∈ cs, c.wellNamed = true) →
    SetEq (XW.run ⟨m0, []⟩ cs).m.cur (SpecX.run ⟨m0.cur, m0.cur, m0.b⟩ cs).cur ∧
    (XW.run ⟨m0, []⟩ cs).m.b = (SpecX.run ⟨m0.cur, m0.cur, m0.b⟩ cs).b

/-- `rollback()` after any history of adds, removes of every shape, binds and pass-through calls:
    the quads are those of the beginning, the log is empty, and every read through the wrapper
    (`triples(pattern, context)` with the graphs of each triple, `__len__(context)`) answers as at the
    beginning. -/
def Statement_code_rollback_restores : Prop :=
  ∀ (m0 : Mem) (ops : List XOp), m0.cur.Nodup → (∀ o ∈ ops, o.wellNamed = true) →
    let s := (XW.run ⟨m0, []⟩ (ops.map .op)).rollback
    SetEq s.m.cur m0.cur ∧ s.log = [] ∧
    (∀ (p : Pat) (t : Triple) (g : Nat),
      (∃ cs, (t, cs) ∈ memTriples s.m.cur p ∧ g ∈ cs) ↔ (∃ cs, (t, cs) ∈ memTriples m0.cur p ∧ g ∈ cs)) ∧
    (∀ g, memLen s.m.cur g = memLen m0.cur g)

/-- `commit()` keeps the wrapped store as it is; a rollback after a commit or a rollback is a no-op;
    `bind` and the pass-through calls touch neither the quads nor the log, and neither `add`, `remove`,
    `commit` nor `rollback` touches the bindings. -/
def Statement_code_boundaries_and_frames : Prop :=
  ∀ (s : XW),
    (s.commit.m = s.m ∧ s.commit.log = []) ∧
    (s.commit.rollback = s.commit ∧ s.rollback.rollback = s.rollback) ∧
    (∀ a n o, (s.step (.bind a n o)).m.cur = s.m.cur ∧ (s.step (.bind a n o)).log = s.log) ∧
    (s.step .pass = s) ∧
    (∀ q, (s.add q).m.b = s.m.b) ∧ (∀ p, (s.remove p).m.b = s.m.b) ∧ s.rollback.m.b = s.m.b

/-- The abstract model of rounds 1–f (`W`, one enumeration order, no early returns) and the code-shaped
    model hold the same quads after every history. -/
def Statement_code_model_agrees_with_abstract : Prop :=
  ∀ (init : List Quad) (cs : List Cmd), init.Nodup →
    (∀ c ∈ cs, (match c with | .op (.remove p) => p.wellNamed | _ => true) = true) →
    SetEq (XW.run ⟨{ cur := init }, []⟩ (cs.map (fun c => match c with
        | .op (.add q) => XCmd.op (.add q)
        | .op (.remove p) => XCmd.op (.remove p)
        | .commit => XCmd.commit
        | .rollback => XCmd.rollback))).m.cur
      (W.runCmds ⟨init, []⟩ cs).cur

structure SimX (s : XW) (sp : SpecX) : Prop where
  cur : SetEq s.m.cur sp.cur
  inv : Inv sp.base s.m.cur s.log
  nodup : s.m.cur.Nodup
  b : s.m.b = sp.b

theorem simx_step {s : XW} {sp : SpecX} (h : SimX s sp) (c : XCmd) (hc : c.wellNamed = true) :
    SimX (s.cmd c) (sp.step c) := by
  cases c with
  | op o =>
    have hb : (sp.step (.op o)).base = sp.base := by cases o <;> rfl
    refine ⟨?_, by rw [hb]; exact xinv_step h.inv h.nodup o hc, xnodup_step h.nodup o, ?_⟩
    · cases o with
      | add q =>
        intro x
        simp only [XW.cmd, XW.step, xw_add_cur, SpecX.step, mem_sinsert, h.cur x]
      | remove p =>
        intro x
        simp only [XW.cmd, XW.step, xw_remove_cur, SpecX.step, List.mem_filter, h.cur x]
      | bind a n o => exact h.cur
      | pass => exact h.cur
    · cases o with
      | add q => simp only [XW.cmd, XW.step, xw_add_b, SpecX.step, h.b]
      | remove p => simp only [XW.cmd, XW.step, xw_remove_b, SpecX.step, h.b]
      | bind a n o => simp only [XW.cmd, XW.step, Mem.bind, SpecX.step, h.b]
      | pass => exact h.b
  | commit =>
    refine ⟨h.cur, ?_, h.nodup, h.b⟩
    simp only [XW.cmd, XW.commit, SpecX.step]
    exact (inv_begin s.m.cur).congr_init h.cur
  | rollback =>
    have hr : SetEq (s.cmd .rollback).m.cur sp.base := by
      simp only [XW.cmd, XW.rollback, replayMem_cur]
      exact replay_restores h.inv
    refine ⟨hr, ?_, ?_, ?_⟩
    · simp only [SpecX.step]
      exact (inv_begin sp.base).congr hr.symm
    · simp only [XW.cmd, XW.rollback, replayMem_cur]
      exact nodup_replay' _ _ h.nodup
    · simp only [XW.cmd, XW.rollback, replayMem_b, SpecX.step, h.b]

theorem simx_run (cs : List XCmd) : ∀ (s : XW) (sp : SpecX), SimX s sp → (∀ c ∈ cs, c.wellNamed = true) →
    SimX (s.run cs) (sp.run cs) := by
  induction cs with
  | nil => intro s sp h _; exact h
  | cons c cs ih =>
    intro s sp h hw
    exact ih _ _ (simx_step h c (hw c (by simp))) (fun c' hc' => hw c' (by simp [hc']))

theorem code_history_refines_spec : Statement_code_history_refines_spec := by
  intro m0 cs hnd hw
  have h := simx_run cs ⟨m0, []⟩ ⟨m0.cur, m0.cur, m0.b⟩ ⟨SetEq.refl _, inv_begin _, hnd, rfl⟩ hw
  exact ⟨h.cur, h.b⟩

theorem code_rollback_restores : Statement_code_rollback_restores := by
  intro m0 ops hnd hw
  have hw' : ∀ c ∈ ops.map XCmd.op, c.wellNamed = true := by
    intro c hc
    obtain ⟨o, ho, rfl⟩ := List.mem_map.mp hc
    exact hw o ho
  have h := simx_run (ops.map .op) ⟨m0, []⟩ ⟨m0.cur, m0.cur, m0.b⟩ ⟨SetEq.refl _, inv_begin _, hnd, rfl⟩ hw'
  have hbase : ∀ (os : List XOp) (sp : SpecX), (sp.run (os.map .op)).base = sp.base := by
    intro os
    induction os with
    | nil => intro sp; rfl
    | cons o os ih =>
      intro sp
      simp only [List.map_cons, SpecX.run, List.foldl_cons] at ih ⊢
      rw [ih]
      cases o <;> rfl
  have h2 := simx_step h .rollback rfl
  have hcur : SetEq (XW.run ⟨m0, []⟩ (ops.map .op)).rollback.m.cur m0.cur := by
    have := h2.cur
    simp only [SpecX.step, hbase] at this
    exact this
  exact ⟨hcur, rfl, fun p t g => memTriples_congr hcur p t g, fun g => memLen_congr h2.nodup hnd hcur g⟩

theorem code_boundaries_and_frames : Statement_code_boundaries_and_frames := by
  intro s
  refine ⟨⟨rfl, rfl⟩, ⟨?_, ?_⟩, fun _ _ _ => ⟨rfl, rfl⟩, rfl, xw_add_b s, xw_remove_b s, ?_⟩
  · simp [XW.rollback, XW.commit, replayMem]
  · simp [XW.rollback, replayMem]
  · simp only [XW.rollback, replayMem_b]

theorem code_model_agrees_with_abstract : Statement_code_model_agrees_with_abstract := by
  intro init cs hnd hw
  let f : Cmd → XCmd := fun c => match c with
    | .op (.add q) => XCmd.op (.add q)
    | .op (.remove p) => XCmd.op (.remove p)
    | .commit => XCmd.commit
    | .rollback => XCmd.rollback
  have hw' : ∀ c ∈ cs.map f, c.wellNamed = true := by
    intro c hc
    obtain ⟨c0, hc0, rfl⟩ := List.mem_map.mp hc
    have := hw c0 hc0
    cases c0 with
    | op o => cases o with
      | add q => rfl
      | remove p => exact this
    | commit => rfl
    | rollback => rfl
  have h1 := (code_history_refines_spec { cur := init } (cs.map f) hnd hw').1
  have h2 := history_refines_spec init cs hnd
  refine h1.trans (SetEq.trans ?_ h2.symm)
  have key : ∀ (cs : List Cmd) (a : SpecX) (b : Spec), a.cur = b.cur → a.base = b.base →
      (a.run (cs.map f)).cur = (b.run cs).cur := by
    intro cs
    induction cs with
    | nil => intro a b h _; exact h
    | cons c cs ih =>
      intro a b hc hb
      simp only [List.map_cons, SpecX.run, Spec.run, List.foldl_cons] at ih ⊢
      apply ih
      · cases c with
        | op o => cases o <;> simp [f, SpecX.step, Spec.step, hc]
        | commit => simp [f, SpecX.step, Spec.step, hc]
        | rollback => simp [f, SpecX.step, Spec.step, hb]
      · cases c with
        | op o => cases o <;> simp [f, SpecX.step, Spec.step, hb]
        | commit => simp [f, SpecX.step, Spec.step, hc]
        | rollback => simp [f, SpecX.step, Spec.step, hb]
  rw [key cs ⟨init, init, {}⟩ ⟨init, init⟩ rfl rfl]
  exact SetEq.refl _

/-- The hypothesis on graph names is needed: with a falsy identifier (`0`), `if ctxId:` sends a wildcard
    remove down the all-graphs branch, which cancels the pending undo entry of a quad of ANOTHER graph
    although the store call only touches the named graph; rollback then leaves that quad behind.  (No
    `Graph` carries a falsy identifier: `Graph.__init__` replaces it by a blank node; the harness checks
    that on every run.) -/
theorem falsy_graph_name_witness :
    ¬ SetEq (XW.run ⟨{ cur := [] }, []⟩
        [.op (.add (1, 2, 3, 5)), .op (.remove (some 1, none, none, some 0)), .rollback]).m.cur [] := by
  intro h
  have := (h (1, 2, 3, 5)).1 (by decide)
  cases this

/-- What the code does with bindings: a `bind` inside a transaction survives `rollback()`. -/
theorem binding_survives_rollback :
    (XW.run ⟨{ cur := [] }, []⟩ [.op (.bind 1 7 true), .op (.add (1, 2, 3, 5)), .rollback]).m
      = { cur := [], ctxs := [5], b := { ns := [(1, 7)], pf := [(7, 1)] } } := by decide

/-- non-vacuity: a history through all three branches of `remove`, an early return, a bind, a commit -/
example :
    let cs : List XCmd :=
      [.op (.remove (some 1, none, none, some 9)), .op (.add (1, 2, 3, 9)), .op (.bind 1 7 false),
       .op (.remove (none, some 2, none, none)), .op (.remove (some 4, some 4, some 4, some 4)), .op (.add (7, 7, 7, 8)), .commit,
       .op (.remove (some 7, some 7, some 7, some 8)), .op .pass, .rollback]
    (XW.run ⟨{ cur := [(1, 2, 3, 9), (4, 2, 3, 8)] }, []⟩ cs).m.cur = [(7, 7, 7, 8)]
    ∧ (∀ c ∈ cs, c.wellNamed = true) := by decide

/-! ### A wrapper over a wrapper -/

def NCmd.outerView : NCmd → Option XCmd
  | .op o => some (.op o)
  | .commitOut => some .commit
  | .rollbackOut => some .rollback
  | .commitIn => none
  | .rollbackIn => none

def NCmd.wellNamed : NCmd → Bool
  | .op o => o.wellNamed
  | _ => true

def NCmd.isRollbackIn : NCmd → Bool
  | .rollbackIn => true
  | _ => false

def NCmd.innerBoundary : NCmd → Bool
  | .commitIn => true
  | .rollbackIn => true
  | _ => false

/-- The outer transaction of `AuditableStore(AuditableStore(store))`: whatever the inner wrapper has
    pending at the start and whenever it commits in between, the outer wrapper is atomic — every history
    of operations through the outer wrapper with outer commits / rollbacks anywhere refines the snapshot
    specification (in particular: outer rollback after inner commit restores the outer beginning). -/
def Statement_nested_outer_refines_spec : Prop :=
  ∀ (m0 : Mem) (logIn0 : List Entry) (cs : List NCmd), m0.cur.Nodup →
    (∀ c ∈ cs, c.wellNamed = true) → (∀ c ∈ cs, c.isRollbackIn = false) →
    SetEq (Nest.run ⟨m0, logIn0, []⟩ cs).m.cur
      (SpecX.run ⟨m0.cur, m0.cur, m0.b⟩ (cs.filterMap NCmd.outerView)).cur

/-- The inner transaction: everything the outer wrapper does — its operations, its commits, the replay
    of its log by its rollback — reaches the inner wrapper as ordinary adds and removes, so an inner
    rollback restores the content of the inner transaction's beginning, outer boundaries notwithstanding
    and whatever the outer log held at that moment. -/
def Statement_nested_inner_rollback_restores : Prop :=
  ∀ (m0 : Mem) (logOut0 : List Entry) (cs : List NCmd), m0.cur.Nodup →
    (∀ c ∈ cs, c.wellNamed = true) → (∀ c ∈ cs, c.innerBoundary = false) →
    SetEq ((Nest.run ⟨m0, [], logOut0⟩ cs).cmd .rollbackIn).m.cur m0.cur

structure SimN (n : Nest) (sp : SpecX) : Prop where
  cur : SetEq n.m.cur sp.cur
  inv : Inv sp.base n.m.cur n.logOut
  nodup : n.m.cur.Nodup

theorem simn_step {n : Nest} {sp : SpecX} (h : SimN n sp) (c : NCmd) (hc : c.wellNamed = true)
    (hr : c.isRollbackIn = false) :
    SimN (n.cmd c) (match c.outerView with | some xc => sp.step xc | none => sp) := by
  cases c with
  | op o =>
    cases o with
    | add q =>
      refine ⟨?_, nest_outer_inv_add h.inv q, by simp only [Nest.cmd, nest_add_cur]; exact nodup_sinsert h.nodup⟩
      intro x
      simp only [Nest.cmd, nest_add_cur, NCmd.outerView, SpecX.step, mem_sinsert, h.cur x]
    | remove p =>
      refine ⟨?_, nest_outer_inv_remove h.inv h.nodup p hc, by simp only [Nest.cmd, nest_remove_cur]; exact h.nodup.filter _⟩
      intro x
      simp only [Nest.cmd, nest_remove_cur, NCmd.outerView, SpecX.step, List.mem_filter, h.cur x]
    | bind a b o => exact ⟨h.cur, h.inv, h.nodup⟩
    | pass => exact ⟨h.cur, h.inv, h.nodup⟩
  | commitOut =>
    refine ⟨h.cur, ?_, h.nodup⟩
    simp only [Nest.cmd, NCmd.outerView, SpecX.step]
    exact (inv_begin n.m.cur).congr_init h.cur
  | rollbackOut =>
    have hcur : (n.cmd .rollbackOut).m.cur = replay n.m.cur n.logOut := by
      simp only [Nest.cmd, withInner_m, replayInner_cur, inner_m]
    have hr : SetEq (n.cmd .rollbackOut).m.cur sp.base := by rw [hcur]; exact replay_restores h.inv
    refine ⟨hr, ?_, by rw [hcur]; exact nodup_replay' _ _ h.nodup⟩
    simp only [NCmd.outerView, SpecX.step]
    exact (inv_begin sp.base).congr hr.symm
  | commitIn => exact ⟨h.cur, h.inv, h.nodup⟩
  | rollbackIn => cases hr

theorem simn_run (cs : List NCmd) : ∀ (n : Nest) (sp : SpecX), SimN n sp →
    (∀ c ∈ cs, c.wellNamed = true) → (∀ c ∈ cs, c.isRollbackIn = false) →
    SimN (n.run cs) (sp.run (cs.filterMap NCmd.outerView)) := by
  induction cs with
  | nil => intro n sp h _ _; exact h
  | cons c cs ih =>
    intro n sp h hw hr
    have h1 := simn_step h c (hw c (by simp)) (hr c (by simp))
    have hw' : ∀ c' ∈ cs, c'.wellNamed = true := fun c' hc' => hw c' (by simp [hc'])
    have hr' : ∀ c' ∈ cs, c'.isRollbackIn = false := fun c' hc' => hr c' (by simp [hc'])
    cases hv : c.outerView with
    | none =>
      rw [hv] at h1
      simp only [List.filterMap_cons, hv, Nest.run, List.foldl_cons]
      exact ih _ _ h1 hw' hr'
    | some xc =>
      rw [hv] at h1
      simp only [List.filterMap_cons, hv, Nest.run, SpecX.run, List.foldl_cons]
      exact ih _ _ h1 hw' hr'

theorem nested_outer_refines_spec : Statement_nested_outer_refines_spec := by
  intro m0 logIn0 cs hnd hw hr
  exact (simn_run cs ⟨m0, logIn0, []⟩ ⟨m0.cur, m0.cur, m0.b⟩ ⟨SetEq.refl _, inv_begin _, hnd⟩ hw hr).cur

theorem nested_inner_step {base : List Quad} {n : Nest} (h : Inv base n.m.cur n.logIn) (hnd : n.m.cur.Nodup)
    (c : NCmd) (hc : c.wellNamed = true) (hb : c.innerBoundary = false) :
    Inv base (n.cmd c).m.cur (n.cmd c).logIn ∧ (n.cmd c).m.cur.Nodup := by
  cases c with
  | op o =>
    cases o with
    | add q => exact ⟨nest_inner_inv_add h q, by simp only [Nest.cmd, nest_add_cur]; exact nodup_sinsert hnd⟩
    | remove p =>
      exact ⟨nest_inner_inv_remove h hnd p hc, by simp only [Nest.cmd, nest_remove_cur]; exact hnd.filter _⟩
    | bind a b o => exact ⟨h, hnd⟩
    | pass => exact ⟨h, hnd⟩
  | commitOut => exact ⟨h, hnd⟩
  | rollbackOut =>
    refine ⟨replayInner_inv (base := base) n.logOut n.inner h hnd, ?_⟩
    simp only [Nest.cmd, withInner_m, replayInner_cur, inner_m]
    exact nodup_replay' _ _ hnd
  | commitIn => cases hb
  | rollbackIn => cases hb

theorem nested_inner_rollback_restores : Statement_nested_inner_rollback_restores := by
  intro m0 logOut0 cs hnd hw hb
  have key : ∀ (cs : List NCmd) (n : Nest), Inv m0.cur n.m.cur n.logIn → n.m.cur.Nodup →
      (∀ c ∈ cs, c.wellNamed = true) → (∀ c ∈ cs, c.innerBoundary = false) →
      Inv m0.cur (n.run cs).m.cur (n.run cs).logIn := by
    intro cs
    induction cs with
    | nil => intro n h _ _ _; exact h
    | cons c cs ih =>
      intro n h hn hw hb
      have h1 := nested_inner_step h hn c (hw c (by simp)) (hb c (by simp))
      exact ih _ h1.1 h1.2 (fun c' hc' => hw c' (by simp [hc'])) (fun c' hc' => hb c' (by simp [hc']))
  have h := key cs ⟨m0, [], logOut0⟩ (inv_begin _) hnd hw hb
  simp only [Nest.cmd, withInner_m, XW.rollback, replayMem_cur, inner_m, inner_log]
  exact replay_restores h

/-- non-vacuity: outer add, inner commit, outer pattern remove, outer rollback (restores the outer
    beginning), then inner rollback (restores the inner beginning = after its commit) -/
example :
    (Nest.run ⟨{ cur := [(1, 2, 3, 9)] }, [], []⟩
      [.op (.add (4, 5, 6, 8)), .commitIn, .op (.remove (none, none, none, some 9)), .rollbackOut]).m.cur
        = [(1, 2, 3, 9)]
    ∧ (Nest.run ⟨{ cur := [(1, 2, 3, 9)] }, [], []⟩
      [.op (.add (4, 5, 6, 8)), .commitIn, .op (.remove (none, none, none, some 9)), .rollbackOut, .rollbackIn]).m.cur
        = [(1, 2, 3, 9), (4, 5, 6, 8)] := by decide

/-! ### The graph names the wrapped store knows (`contexts()`) -/

/-- What the code does with `Memory.__all_contexts` (the answer of `contexts()`): over every history,
    every graph that holds a quad is known, no name is ever forgotten, and `rollback()` / `commit()`
    change nothing about the known names — in particular a rollback teaches the store no new name
    (every quad it re-adds goes into a graph the store already knows). -/
def Statement_contexts_kept_by_rollback : Prop :=
  ∀ (m0 : Mem) (cs : List XCmd), (∀ q ∈ m0.cur, q.graph ∈ m0.ctxs) →
    let s := XW.run ⟨m0, []⟩ cs
    s.rollback.m.ctxs = s.m.ctxs ∧ s.commit.m.ctxs = s.m.ctxs ∧
    (∀ g ∈ m0.ctxs, g ∈ s.m.ctxs) ∧ (∀ q ∈ s.m.cur, q.graph ∈ s.m.ctxs)

theorem contexts_kept_by_rollback : Statement_contexts_kept_by_rollback := by
  intro m0 cs h0
  have h := known_run cs ⟨m0, []⟩ m0.ctxs ⟨h0, by simp⟩ (fun g hg => hg)
  exact ⟨replayMem_ctxs _ _ h.1.log, rfl, h.2, h.1.cur⟩

/-- …and what it does NOT do: a graph name first used inside the transaction stays known (as an empty
    graph) after `rollback()`.  The property speaks of triples; `contexts()` of a graph-aware store is
    not transactional. -/
theorem new_graph_name_survives_rollback :
    (XW.run ⟨{ cur := [] }, []⟩ [.op (.add (1, 2, 3, 5)), .rollback]).m = { cur := [], ctxs := [5] } := by
  decide

/-! ### Two wrappers side by side, code-shaped model -/

/-- `two_wrappers_disjoint` over the code of `auditable.py` and the extended operation set: every
    interleaving of two wrappers whose operations touch statically disjoint territories (binds and
    pass-through calls touch nothing); rolling wrapper `i` back leaves exactly what the other wrapper's
    operations alone produce from the initial content. -/
def Statement_code_two_wrappers_disjoint : Prop :=
  ∀ (m0 : Mem) (i : Bool) (T : Quad → Bool) (ops : List (Bool × XOp)), m0.cur.Nodup →
    (∀ jo ∈ ops, jo.2.wellNamed = true) →
    (∀ jo ∈ ops, ∀ q, jo.2.touches q = true → (T q = true ↔ jo.1 = i)) →
    SetEq (((X2.run ⟨m0, [], []⟩ ops).rollback i).m.cur)
          ((XW.run ⟨m0, []⟩ (((ops.filter (fun jo => jo.1 != i)).map (·.2)).map .op)).m.cur)

theorem code_two_wrappers_disjoint : Statement_code_two_wrappers_disjoint := by
  intro m0 i T ops hnd hw hd
  have h0 : JX T i ⟨m0, [], []⟩ m0.cur :=
    ⟨by cases i <;> exact inv_begin m0.cur, by cases i <;> simp [X2.w], hnd⟩
  have h := JX_run ops _ _ h0 hw hd
  rw [xrun_ops_cur, ← othersImageX_eq]
  simp only [X2.rollback, x2_put_m, XW.rollback, replayMem_cur]
  rw [x2_w_m]
  exact replay_restores h.inv

/-- non-vacuity: wrapper 0 works on subject 1 (two branches of `remove`, a bind), wrapper 1 on subject 2 -/
example :
    let ops : List (Bool × XOp) :=
      [(false, .remove (some 1, none, none, none)), (true, .add (2, 5, 5, 9)), (false, .bind 1 7 true),
       (false, .add (1, 6, 6, 9)), (true, .remove (some 2, some 2, none, some 9))]
    (((X2.run ⟨{ cur := [(1, 2, 3, 9), (2, 2, 3, 9)] }, [], []⟩ ops).rollback false).m.cur = [(2, 5, 5, 9), (1, 2, 3, 9)])
    ∧ (∀ jo ∈ ops, jo.2.wellNamed = true)
    ∧ (∀ jo ∈ ops, ∀ q, jo.2.touches q = true → ((q.1 == 1) = true ↔ jo.1 = false)) := by
  refine ⟨by decide, by decide, ?_⟩
  intro jo hjo q hq
  simp only [List.mem_cons, List.not_mem_nil, or_false] at hjo
  rcases hjo with rfl | rfl | rfl | rfl | rfl <;>
    simp_all [XOp.touches, Pat.matches, matchPos]

/-! ### Operations arriving through `Graph` / `ConjunctiveGraph` / `Store.addN` -/

/-- snapshot specification over graph-level commands: an operation's effect on the set of quads is the
    fold of its wrapper calls' effects (`curStepX`); what that fold MEANS for each operation is
    `graph_level_ops_meaning` below. -/
def SpecX.gstep (s : SpecX) : GCmd → SpecX
  | .op g => { s with cur := g.expand.foldl curStepX s.cur }
  | .commit => { s with base := s.cur }
  | .rollback => { s with cur := s.base }

def SpecX.grun (s : SpecX) (cs : List GCmd) : SpecX := cs.foldl SpecX.gstep s

/-- Every history of graph-level operations (batch adds / `+=` / parser adds, `Graph.set`, `-=`,
    `remove_context`, a quad carrying a foreign Graph object, single store calls) with boundaries
    anywhere: the wrapped store holds what the snapshot specification says. -/
def Statement_graph_level_history_refines_spec : Prop :=
  ∀ (m0 : Mem) (cs : List GCmd), m0.cur.Nodup → (∀ c ∈ cs, c.wellNamed = true) →
    SetEq (XW.run ⟨m0, []⟩ (cs.flatMap GCmd.expand)).m.cur (SpecX.grun ⟨m0.cur, m0.cur, m0.b⟩ cs).cur

/-- What each graph-level operation means on a set of quads `c`. -/
def Statement_graph_level_ops_meaning : Prop :=
  ∀ (c : List Quad) (x : Quad),
    (∀ qs, x ∈ (GOp.addN qs).expand.foldl curStepX c ↔ x ∈ qs ∨ x ∈ c) ∧
    (∀ q, x ∈ (GOp.set q).expand.foldl curStepX c ↔
      x = q ∨ (x ∈ c ∧ ¬ (x.1 = q.1 ∧ x.2.1 = q.2.1 ∧ x.graph = q.graph))) ∧
    (∀ qs, x ∈ (GOp.isub qs).expand.foldl curStepX c ↔ x ∈ c ∧ x ∉ qs) ∧
    (∀ g, x ∈ (GOp.removeContext g).expand.foldl curStepX c ↔ x ∈ c ∧ x.graph ≠ g) ∧
    (∀ q extra, x ∈ (GOp.addForeign q extra).expand.foldl curStepX c ↔
      x = q ∨ (∃ t ∈ extra, x = mkQuad t q.graph) ∨ x ∈ c)

theorem specx_run_ops (os : List XOp) : ∀ (sp : SpecX),
    (sp.run (os.map .op)).cur = os.foldl curStepX sp.cur ∧ (sp.run (os.map .op)).base = sp.base := by
  induction os with
  | nil => intro sp; exact ⟨rfl, rfl⟩
  | cons o os ih =>
    intro sp
    simp only [List.map_cons, SpecX.run, List.foldl_cons] at ih ⊢
    obtain ⟨h1, h2⟩ := ih (sp.step (.op o))
    refine ⟨?_, ?_⟩
    · rw [h1]; cases o <;> rfl
    · rw [h2]; cases o <;> rfl

theorem graph_level_history_refines_spec : Statement_graph_level_history_refines_spec := by
  intro m0 cs hnd hw
  have hw' : ∀ x ∈ cs.flatMap GCmd.expand, x.wellNamed = true := by
    intro x hx
    obtain ⟨c, hc, hxc⟩ := List.mem_flatMap.mp hx
    exact gcmd_expand_wellNamed c (hw c hc) x hxc
  refine (code_history_refines_spec m0 _ hnd hw').1.trans ?_
  have key : ∀ (cs : List GCmd) (sp sq : SpecX), sp.cur = sq.cur → sp.base = sq.base →
      (sp.run (cs.flatMap GCmd.expand)).cur = (sq.grun cs).cur := by
    intro cs
    induction cs with
    | nil => intro sp sq h _; exact h
    | cons c cs ih =>
      intro sp sq hc hb
      simp only [List.flatMap_cons, SpecX.run, SpecX.grun, List.foldl_append, List.foldl_cons] at ih ⊢
      apply ih
      · cases c with
        | op g =>
          have := specx_run_ops g.expand sp
          simp only [SpecX.run] at this
          simp only [GCmd.expand, SpecX.gstep, this.1, hc]
        | commit => simp [GCmd.expand, SpecX.step, SpecX.gstep, hc]
        | rollback => simp [GCmd.expand, SpecX.step, SpecX.gstep, hb]
      · cases c with
        | op g =>
          have := specx_run_ops g.expand sp
          simp only [SpecX.run] at this
          simp only [GCmd.expand, SpecX.gstep, this.2, hb]
        | commit => simp [GCmd.expand, SpecX.step, SpecX.gstep, hc]
        | rollback => simp [GCmd.expand, SpecX.step, SpecX.gstep, hb]
  rw [key cs _ _ rfl rfl]
  exact SetEq.refl _

theorem graph_level_ops_meaning : Statement_graph_level_ops_meaning := by
  intro c x
  refine ⟨fun qs => mem_fold_adds qs c x, ?_, fun qs => mem_fold_removes qs c x, ?_, ?_⟩
  · intro q
    obtain ⟨a, b, d, g⟩ := q
    obtain ⟨a', b', d', g'⟩ := x
    simp only [GOp.expand, List.foldl_cons, List.foldl_nil, curStepX, mem_sinsert, List.mem_filter,
      Pat.matches, matchPos, Quad.graph, Bool.and_true, Bool.not_eq_true', Bool.and_eq_false_iff, beq_eq_false_iff_ne,
      ne_eq, Prod.mk.injEq]
    constructor
    · rintro (h | ⟨h1, h2⟩)
      · exact Or.inl h
      · refine Or.inr ⟨h1, ?_⟩
        rintro ⟨e1, e2, e3⟩
        rcases h2 with (h2 | h2) | h2
        · exact h2 e1
        · exact h2 e2
        · exact h2 e3
    · rintro (h | ⟨h1, h2⟩)
      · exact Or.inl h
      · refine Or.inr ⟨h1, ?_⟩
        by_cases e1 : a' = a
        · by_cases e2 : b' = b
          · exact Or.inr (fun e3 => h2 ⟨e1, e2, e3⟩)
          · exact Or.inl (Or.inr e2)
        · exact Or.inl (Or.inl e1)
  · intro g
    obtain ⟨a', b', d', g'⟩ := x
    simp [GOp.expand, curStepX, Pat.matches, matchPos, Quad.graph]
  · intro q extra
    simp only [GOp.expand, List.foldl_append, List.foldl_cons, List.foldl_nil, curStepX, mem_sinsert]
    have h := mem_fold_adds (extra.map (fun t => mkQuad t q.graph)) c x
    rw [List.map_map] at h
    have e : (XOp.add ∘ fun t => mkQuad t q.graph) = fun t => XOp.add (mkQuad t q.graph) := rfl
    rw [e] at h
    rw [h]
    simp only [List.mem_map]
    constructor
    · rintro (h1 | ⟨t, ht, rfl⟩ | h1)
      · exact Or.inl h1
      · exact Or.inr (Or.inl ⟨t, ht, rfl⟩)
      · exact Or.inr (Or.inr h1)
    · rintro (h1 | ⟨t, ht, rfl⟩ | h1)
      · exact Or.inl h1
      · exact Or.inr (Or.inl ⟨t, ht, rfl⟩)
      · exact Or.inr (Or.inr h1)

/-! ### The defect fixed in round g (C18-F3), kept as a regression witness.
    Before the fix the wildcard branch looped over `context.triples(pattern)`.  When the context is a
    `ConjunctiveGraph` (`cg.remove((None, None, None, cg))`) that lists the matching triples of EVERY
    graph; each was logged under the context's own name `g`, although the store call only removes from
    graph `g`.  Rollback then re-added, into `g`, triples that were never there. -/

/-- pre-fix enumeration for a ConjunctiveGraph context: triples of every graph, each paired with `g` -/
def graphTriplesUnion (cur : List Quad) (p : Pat) (g : Nat) : List Quad :=
  (memTriples cur p.anyGraph).map (fun tc => mkQuad tc.1 g)

def XW.removeUnionBuggy (s : XW) (p : Pat) (g : Nat) : XW :=
  ⟨s.m.remove p, logRemovals s.log (graphTriplesUnion s.m.cur p g)⟩

theorem conjunctive_context_broke_rollback :
    ¬ SetEq ((XW.removeUnionBuggy ⟨{ cur := [(1, 2, 3, 8)] }, []⟩ (none, none, none, some 9) 9).rollback).m.cur
        [(1, 2, 3, 8)] := by
  intro h
  have := (h (1, 2, 3, 9)).1 (by decide)
  revert this
  decide

/-! ### Graph objects handed out by the wrapper (findings C18-F2, C18-F4) -/

/-- Every `Graph` object the wrapper hands out — by `contexts(triple)` or as the graphs of a triple yielded
    by `triples(pattern, context)` (hence by `ConjunctiveGraph.contexts`, `.quads`, `.get_graph`) — is bound
    to the wrapper, and a write made through an object bound to the wrapper IS a step of the wrapper: it is
    logged, and every theorem about histories (`code_history_refines_spec` …) covers it. -/
def Statement_handed_out_graphs_log : Prop :=
  ∀ (s : XW),
    (∀ t, ∀ h ∈ handOutContexts s.m t, h.2 = Bound.wrapper) ∧
    (∀ p, ∀ tc ∈ handOutTriples s.m.cur p, ∀ h ∈ tc.2, h.2 = Bound.wrapper) ∧
    (∀ (h : Handle) (w : HWrite), h.2 = Bound.wrapper → ∃ o : XOp, s.writeVia h w = s.step o)

theorem handed_out_graphs_log : Statement_handed_out_graphs_log := by
  intro s
  refine ⟨?_, ?_, ?_⟩
  · intro t h hh
    simp only [handOutContexts, List.mem_map] at hh
    obtain ⟨g, _, rfl⟩ := hh
    rfl
  · intro p tc htc h hh
    simp only [handOutTriples, List.mem_map] at htc
    obtain ⟨tc0, _, rfl⟩ := htc
    simp only [List.mem_map] at hh
    obtain ⟨g, _, rfl⟩ := hh
    rfl
  · intro h w hb
    cases w with
    | add t => exact ⟨.add (mkQuad t h.1), by simp only [XW.writeVia, hb, XW.step]⟩
    | remove a b c => exact ⟨.remove (a, b, c, some h.1), by simp only [XW.writeVia, hb, XW.step]⟩

/-- …whereas a write through an object bound to the WRAPPED store (what `triples()` handed out before the
    fix C18-F4, and `contexts()` before C18-F2) bypasses the log: rollback does not undo it. -/
theorem bypass_breaks_rollback :
    ¬ SetEq (((XW.mk { cur := [(1, 2, 3, 9)], ctxs := [9] } []).writeVia (9, Bound.wrapped) (.remove none none none)).rollback).m.cur
        [(1, 2, 3, 9)] := by
  intro h
  have := (h (1, 2, 3, 9)).2 (by simp)
  revert this
  decide

/-! ### Round h: every read of the public surface that hands out a Graph object -/

/-- For every source of Graph objects (store-level `contexts` / `triples`, `ConjunctiveGraph.contexts`,
    `.contexts(triple)`, `.quads`, `get_context` / `default_context` / `get_graph`, `Graph.resource`,
    `Collection`, the namespace manager): every object handed out is bound to the wrapper, hence
    (`handed_out_graphs_log`) every write through it is a step of the wrapper and is covered by the history
    theorems.  (A `Graph(store=wrapper.store)` the caller builds himself is bound to the wrapped store by
    construction: outside the statement, `bypass_breaks_rollback` shows what it does.) -/
def Statement_every_source_hands_out_wrapper_graphs : Prop :=
  ∀ (s : XW) (src : Source), src ∈ Source.all ∧ ∀ h ∈ handOut s src, h.2 = Bound.wrapper ∧
    ∀ w : HWrite, ∃ o : XOp, s.writeVia h w = s.step o

theorem every_source_hands_out_wrapper_graphs : Statement_every_source_hands_out_wrapper_graphs := by
  intro s src
  have hb : ∀ h ∈ handOut s src, h.2 = Bound.wrapper := by
    intro h hh
    cases src <;>
      simp only [handOut, handOutContexts, handOutTriples, graphLayer, List.mem_map, List.mem_flatMap] at hh
    all_goals first
      | (obtain ⟨g, _, rfl⟩ := hh; rfl)
      | (obtain ⟨tc, ⟨tc0, _, rfl⟩, hh2⟩ := hh
         simp only [List.mem_map] at hh2
         obtain ⟨g, _, rfl⟩ := hh2; rfl)
      | (obtain ⟨t, _, g, _, rfl⟩ := hh; rfl)
  refine ⟨by cases src <;> simp [Source.all], fun h hh => ⟨hb h hh, fun w => (handed_out_graphs_log s).2.2 h w (hb h hh)⟩⟩

/-! ### Round h: transactions spanning `Graph.parse()` and SPARQL Update calls -/

/-- the snapshot specification, with the effect of each request stated directly on the set of quads -/
structure SpecU where
  base : List Quad
  cur : List Quad

def SpecU.step (s : SpecU) : UCmd → SpecU
  | .u (.parse qs) => { s with cur := qs.foldl sinsert s.cur }
  | .u (.insertData qs) => { s with cur := qs.foldl sinsert s.cur }
  | .u (.deleteData qs) => { s with cur := s.cur.filter (fun x => decide (x ∉ qs)) }
  | .u (.deleteWhere p) => { s with cur := s.cur.filter (fun x => !p.matches x) }
  | .u (.clear gr) => { s with cur := s.cur.filter (fun x => x.graph != gr) }
  | .g o => { s with cur := o.expand.foldl curStepX s.cur }
  | .commit => { s with base := s.cur }
  | .rollback => { s with cur := s.base }

def SpecU.run (s : SpecU) (cs : List UCmd) : SpecU := cs.foldl SpecU.step s

def UCmd.wellNamed : UCmd → Bool
  | .u (.clear gr) => truthy gr
  | .g o => o.wellNamed
  | _ => true

/-- Every history of parser runs, SPARQL Update requests (INSERT DATA, DELETE DATA, DELETE WHERE — whose
    calls depend on the content at that moment —, CLEAR GRAPH) and graph-level operations, with commit /
    rollback anywhere: the wrapped store holds what the snapshot specification says. -/
def Statement_update_history_refines_spec : Prop :=
  ∀ (m0 : Mem) (cs : List UCmd), m0.cur.Nodup → (∀ c ∈ cs, c.wellNamed = true) →
    SetEq (XW.urun ⟨m0, []⟩ cs).m.cur (SpecU.run ⟨m0.cur, m0.cur⟩ cs).cur

structure USim (s : XW) (base cur : List Quad) : Prop where
  cur : SetEq s.m.cur cur
  inv : Inv base s.m.cur s.log
  nodup : s.m.cur.Nodup

theorem xrun_ops (os : List XOp) : ∀ (s : XW), s.run (os.map .op) = os.foldl XW.step s := by
  induction os with
  | nil => intro s; rfl
  | cons o os ih => intro s; simp only [List.map_cons, XW.run, List.foldl_cons] at ih ⊢; exact ih _

theorem usim_ops {s : XW} {base c : List Quad} (h : USim s base c) (os : List XOp)
    (hw : ∀ o ∈ os, o.wellNamed = true) : USim (os.foldl XW.step s) base (os.foldl curStepX c) := by
  have hw' : ∀ x ∈ os.map XCmd.op, x.wellNamed = true := by
    intro x hx
    obtain ⟨o, ho, rfl⟩ := List.mem_map.mp hx
    exact hw o ho
  have h1 := simx_run (os.map .op) s ⟨base, c, s.m.b⟩ ⟨h.cur, h.inv, h.nodup, rfl⟩ hw'
  have h2 := specx_run_ops os ⟨base, c, s.m.b⟩
  rw [xrun_ops] at h1
  exact ⟨by have := h1.cur; rw [h2.1] at this; exact this, by have := h1.inv; rw [h2.2] at this; exact this, h1.nodup⟩

theorem USim.congr {s : XW} {base c c' : List Quad} (h : USim s base c) (e : SetEq c c') : USim s base c' :=
  ⟨h.cur.trans e, h.inv, h.nodup⟩

theorem mem_foldl_sinsert (qs : List Quad) : ∀ (c : List Quad) (x : Quad), x ∈ qs.foldl sinsert c ↔ x ∈ qs ∨ x ∈ c := by
  induction qs with
  | nil => intro c x; simp
  | cons q qs ih =>
    intro c x
    simp only [List.foldl_cons, ih, mem_sinsert, List.mem_cons]
    constructor
    · rintro (h | h | h)
      · exact Or.inl (Or.inr h)
      · exact Or.inl (Or.inl h)
      · exact Or.inr h
    · rintro ((h | h) | h)
      · exact Or.inr (Or.inl h)
      · exact Or.inl h
      · exact Or.inr (Or.inr h)

theorem usim_step {s : XW} {sp : SpecU} (h : USim s sp.base sp.cur) (c : UCmd) (hc : c.wellNamed = true) :
    USim (s.ucmd c) (sp.step c).base (sp.step c).cur := by
  cases c with
  | u o =>
    have hwn : ∀ x ∈ o.expandAt s.m.cur, x.wellNamed = true := by
      intro x hx
      cases o with
      | parse qs => simp only [UOp.expandAt, List.mem_map] at hx; obtain ⟨q, _, rfl⟩ := hx; rfl
      | insertData qs => simp only [UOp.expandAt, List.mem_map] at hx; obtain ⟨q, _, rfl⟩ := hx; rfl
      | deleteData qs => simp only [UOp.expandAt, List.mem_map] at hx; obtain ⟨q, _, rfl⟩ := hx; exact pat_wellNamed q
      | deleteWhere p => simp only [UOp.expandAt, List.mem_map] at hx; obtain ⟨q, _, rfl⟩ := hx; exact pat_wellNamed q
      | clear g =>
        simp only [UOp.expandAt, List.mem_singleton] at hx
        subst hx
        simp only [UCmd.wellNamed] at hc
        simp only [XOp.wellNamed, Pat.wellNamed, Pat.ground?, Option.isSome_none, Bool.false_or]
        exact hc
    have h1 := usim_ops h (o.expandAt s.m.cur) hwn
    have hb : (sp.step (.u o)).base = sp.base := by cases o <;> rfl
    rw [hb]
    refine USim.congr (c := (o.expandAt s.m.cur).foldl curStepX sp.cur) h1 ?_
    intro x
    cases o with
    | parse qs => simp only [UOp.expandAt, SpecU.step, mem_fold_adds, mem_foldl_sinsert]
    | insertData qs => simp only [UOp.expandAt, SpecU.step, mem_fold_adds, mem_foldl_sinsert]
    | deleteData qs =>
      simp only [UOp.expandAt, SpecU.step, mem_fold_removes, List.mem_filter, decide_eq_true_eq]
    | deleteWhere p =>
      simp only [UOp.expandAt, SpecU.step, mem_fold_removes, List.mem_filter, Bool.not_eq_true', not_and,
        Bool.not_eq_true]
      constructor
      · rintro ⟨h2, h3⟩; exact ⟨h2, h3 ((h.cur x).mpr h2)⟩
      · rintro ⟨h2, h3⟩; exact ⟨h2, fun _ => h3⟩
    | clear g =>
      obtain ⟨a, b, d, g'⟩ := x
      simp [UOp.expandAt, SpecU.step, curStepX, Pat.matches, matchPos, Quad.graph]
  | g o => exact usim_ops h o.expand (expand_wellNamed o (by simpa only [UCmd.wellNamed] using hc))
  | commit =>
    refine ⟨h.cur, ?_, h.nodup⟩
    simp only [XW.ucmd, XW.commit, SpecU.step]
    exact (inv_begin s.m.cur).congr_init h.cur
  | rollback =>
    have hr : SetEq (s.ucmd .rollback).m.cur sp.base := by
      simp only [XW.ucmd, XW.rollback, replayMem_cur]
      exact replay_restores h.inv
    refine ⟨hr, ?_, ?_⟩
    · simp only [SpecU.step]
      exact (inv_begin sp.base).congr hr.symm
    · simp only [XW.ucmd, XW.rollback, replayMem_cur]
      exact nodup_replay' _ _ h.nodup

theorem update_history_refines_spec : Statement_update_history_refines_spec := by
  intro m0 cs hnd hw
  have key : ∀ (cs : List UCmd) (s : XW) (sp : SpecU), USim s sp.base sp.cur → (∀ c ∈ cs, c.wellNamed = true) →
      USim (s.urun cs) (sp.run cs).base (sp.run cs).cur := by
    intro cs
    induction cs with
    | nil => intro s sp h _; exact h
    | cons c cs ih =>
      intro s sp h hw
      exact ih _ _ (usim_step h c (hw c (by simp))) (fun c' hc' => hw c' (by simp [hc']))
  exact (key cs ⟨m0, []⟩ ⟨m0.cur, m0.cur⟩ ⟨SetEq.refl _, inv_begin _, hnd⟩ hw).cur

/-- non-vacuity: a parse, a DELETE WHERE that meets a parsed and an initial triple, a commit, a CLEAR, a rollback -/
example :
    (XW.urun ⟨{ cur := [(1, 2, 3, 9), (4, 2, 3, 8)] }, []⟩
      [.u (.parse [(1, 2, 5, 9), (6, 6, 6, 9)]), .u (.deleteWhere (some 1, none, none, some 9)), .commit,
       .u (.clear 9), .u (.insertData [(7, 7, 7, 9)]), .rollback]).m.cur = [(4, 2, 3, 8), (6, 6, 6, 9)] := by decide

end RV.C18
