import RV.C18.Lemmas
import RV.C18.TwoWrappers
/-
  C18 — property theorems (statements first, as `def … : Prop`, then the proofs).

  "Rollback restores, commit keeps: the auditable store is atomic over any history."
-/
namespace RV.C18

/-! ### Specification: a transaction is a snapshot -/

/-- The abstract transactional set: `base` = content when the transaction began. -/
structure Spec where
  base : List Quad
  cur : List Quad

inductive Cmd
  | op (o : Op)
  | commit
  | rollback
  deriving Repr

def Spec.step (s : Spec) : Cmd → Spec
  | .op (.add q) => { s with cur := sinsert s.cur q }
  | .op (.remove p) => { s with cur := s.cur.filter (fun q => !p.matches q) }
  | .commit => { s with base := s.cur }
  | .rollback => { s with cur := s.base }

def W.cmd (s : W) : Cmd → W
  | .op o => s.step o
  | .commit => s.commit
  | .rollback => s.rollback

def W.runCmds (s : W) (cs : List Cmd) : W := cs.foldl W.cmd s
def Spec.run (s : Spec) (cs : List Cmd) : Spec := cs.foldl Spec.step s

/-! ### Statements -/

/-- After any history of adds / pattern removes since the transaction began,
    `rollback()` leaves exactly the content the store had at the beginning. -/
def Statement_rollback_restores : Prop :=
  ∀ (init : List Quad) (ops : List Op), init.Nodup →
    SetEq ((W.run ⟨init, []⟩ ops).rollback).cur init ∧ ((W.run ⟨init, []⟩ ops).rollback).log = []

/-- `commit()` leaves exactly the content reached. -/
def Statement_commit_keeps : Prop :=
  ∀ (s : W), s.commit.cur = s.cur ∧ s.commit.log = []

/-- A further rollback after a commit or a rollback changes nothing. -/
def Statement_rollback_after_boundary_noop : Prop :=
  ∀ (s : W), s.commit.rollback = s.commit ∧ s.rollback.rollback = s.rollback

/-- Every history, with commit/rollback placed anywhere: the wrapped store always
    holds what the snapshot specification says. -/
def Statement_history_refines_spec : Prop :=
  ∀ (init : List Quad) (cs : List Cmd), init.Nodup →
    SetEq (W.runCmds ⟨init, []⟩ cs).cur (Spec.run ⟨init, init⟩ cs).cur

/-! ### Proofs -/

theorem rollback_restores : Statement_rollback_restores := by
  intro init ops hnd
  have h := (inv_run ops ⟨init, []⟩ (inv_begin init) hnd).1
  exact ⟨replay_restores h, rfl⟩

theorem commit_keeps : Statement_commit_keeps := fun _ => ⟨rfl, rfl⟩

theorem rollback_after_boundary_noop : Statement_rollback_after_boundary_noop := by
  intro s
  constructor <;> simp [W.rollback, W.commit, replay]

theorem nodup_replay (log : List Entry) : ∀ (cur : List Quad), cur.Nodup → (replay cur log).Nodup := by
  induction log with
  | nil => intro cur h; simpa [replay]
  | cons e es ih =>
    intro cur h
    obtain ⟨q, u⟩ := e
    cases u with
    | add => exact ih _ (nodup_sinsert h)
    | remove => exact ih _ (nodup_sremove h)

/-- simulation relation between the wrapper and the snapshot spec -/
structure Sim (s : W) (sp : Spec) : Prop where
  cur : SetEq s.cur sp.cur
  inv : Inv sp.base s.cur s.log
  nodup : s.cur.Nodup

theorem sim_step {s : W} {sp : Spec} (h : Sim s sp) (c : Cmd) : Sim (s.cmd c) (sp.step c) := by
  cases c with
  | op o =>
    cases o with
    | add q =>
      refine ⟨?_, inv_step h.inv h.nodup (.add q), nodup_step h.nodup (.add q)⟩
      intro x
      simp only [W.cmd, W.step, W.add, Spec.step]
      split
      · next hq =>
        rw [mem_sinsert, ← h.cur x]
        constructor
        · exact Or.inr
        · rintro (e | e)
          · subst e; exact hq
          · exact e
      · simp only [mem_sinsert, h.cur x]
    | remove p =>
      refine ⟨?_, inv_step h.inv h.nodup (.remove p), nodup_step h.nodup (.remove p)⟩
      intro x
      simp only [W.cmd, W.step, W.remove, Spec.step, List.mem_filter, h.cur x]
  | commit =>
    refine ⟨h.cur, ?_, h.nodup⟩
    simp only [W.cmd, W.commit, Spec.step]
    exact (inv_begin s.cur).congr_init h.cur
  | rollback =>
    refine ⟨?_, ?_, nodup_replay _ _ h.nodup⟩
    · simp only [W.cmd, W.rollback, Spec.step]
      exact replay_restores h.inv
    · simp only [W.cmd, W.rollback, Spec.step]
      exact (inv_begin sp.base).congr (SetEq.symm (replay_restores h.inv))

theorem sim_run (cs : List Cmd) : ∀ (s : W) (sp : Spec), Sim s sp → Sim (s.runCmds cs) (sp.run cs) := by
  induction cs with
  | nil => intro s sp h; exact h
  | cons c cs ih => intro s sp h; exact ih _ _ (sim_step h c)

theorem history_refines_spec : Statement_history_refines_spec := by
  intro init cs hnd
  exact (sim_run cs ⟨init, []⟩ ⟨init, init⟩ ⟨SetEq.refl _, inv_begin init, hnd⟩).cur

/-! ### Two wrappers over one store, touching disjoint quads -/

/-- Two wrappers share one store.  Every operation of wrapper `i` touches only quads inside a
    territory `T`, every operation of the other wrapper only quads outside it (an `add q`
    touches `q`; a `remove pat` touches every quad `pat` can match — the static, pattern-level
    reading of "transactions touch disjoint triples").  Then, for EVERY interleaving `ops`,
    rolling back wrapper `i` leaves exactly what the other wrapper's operations alone
    produce from the initial content: the other's changes are intact, `i`'s are undone. -/
def Statement_two_wrappers_disjoint : Prop :=
  ∀ (init : List Quad) (i : Bool) (T : Quad → Bool) (ops : List (Bool × Op)), init.Nodup →
    (∀ jo ∈ ops, ∀ q, jo.2.touches q = true → (T q = true ↔ jo.1 = i)) →
    SetEq (((St2.run ⟨init, [], []⟩ ops).rollback i).cur)
          ((W.run ⟨init, []⟩ ((ops.filter (fun jo => jo.1 != i)).map (·.2))).cur)

theorem two_wrappers_disjoint : Statement_two_wrappers_disjoint := by
  intro init i T ops hnd hd
  have h0 : J T i ⟨init, [], []⟩ init :=
    ⟨by cases i <;> exact inv_begin init, by cases i <;> simp [St2.w], hnd⟩
  have h := J_run ops _ _ h0 hd
  rw [run_cur, ← othersImage_eq]
  simp only [St2.rollback, put_cur, W.rollback]
  rw [w_cur]
  exact replay_restores h.inv

/-- non-vacuity: wrapper 0 works on subject 1, wrapper 1 on subject 2, interleaved -/
example :
    let ops : List (Bool × Op) :=
      [(false, .remove (some 1, none, none, none)), (true, .add (2, 5, 5, 9)),
       (false, .add (1, 6, 6, 9)), (true, .remove (some 2, some 2, none, none))]
    (((St2.run ⟨[(1, 2, 3, 9), (2, 2, 3, 9)], [], []⟩ ops).rollback false).cur = [(2, 5, 5, 9), (1, 2, 3, 9)])
    ∧ (∀ jo ∈ ops, ∀ q, jo.2.touches q = true → ((q.1 == 1) = true ↔ jo.1 = false)) := by
  refine ⟨by decide, ?_⟩
  intro jo hjo q hq
  simp only [List.mem_cons, List.not_mem_nil, or_false] at hjo
  rcases hjo with rfl | rfl | rfl | rfl <;>
    simp_all [Op.touches, Pat.matches, matchPos]

/-! ### Non-vacuity: a concrete history that exercises cancel and append paths -/

def exInit : List Quad := [(1, 2, 3, 9), (4, 2, 3, 9)]
def exOps : List Op :=
  [.remove (some 1, none, none, none), .add (1, 2, 3, 9), .add (7, 7, 7, 8),
   .remove (none, some 7, none, some 8), .remove (none, none, some 3, none)]

example : exInit.Nodup := by decide
example : (W.run ⟨exInit, []⟩ exOps).cur = [] ∧ (W.run ⟨exInit, []⟩ exOps).log.length = 2 := by decide
example : ((W.run ⟨exInit, []⟩ exOps).rollback).cur = [(4, 2, 3, 9), (1, 2, 3, 9)] := by decide

/-! ### The defect of the pinned code (before the `fix:` commit), kept as a regression witness.
    With `append-and-cancel` in `add`, remove-then-re-add of a present quad leaves a
    spurious `remove` entry and rollback deletes a quad that was there at the beginning. -/

def W.addBuggy (s : W) (q : Quad) : W :=
  if q ∈ s.cur then s
  else { cur := sinsert s.cur q, log := appendAndCancel s.log q }

theorem buggy_add_breaks_rollback :
    ¬ SetEq (((W.remove ⟨[(1, 2, 3, 9)], []⟩ (some 1, some 2, some 3, some 9)).addBuggy (1, 2, 3, 9)).rollback).cur
        [(1, 2, 3, 9)] := by
  intro h
  have := (h (1, 2, 3, 9)).2 (by simp)
  revert this
  decide

end RV.C18
