import RV.C18.Lemmas
import RV.C18.TwoWrappers
import RV.C18.XModel
import Mathlib.Data.List.Nodup
/-
  C18 round g — lemmas about the code-shaped model (`XModel.lean`).
-/
namespace RV.C18

/-! ### store primitives -/

theorem mem_sdedup {α : Type} [DecidableEq α] (l : List α) (x : α) : x ∈ sdedup l ↔ x ∈ l := by
  induction l with
  | nil => simp [sdedup]
  | cons y ys ih =>
    unfold sdedup
    split
    · next h =>
      rw [ih, List.mem_cons]
      constructor
      · exact Or.inr
      · rintro (e | e)
        · subst e; exact h
        · exact e
    · simp only [List.mem_cons, ih]

theorem nodup_sdedup {α : Type} [DecidableEq α] (l : List α) : (sdedup l).Nodup := by
  induction l with
  | nil => simp [sdedup]
  | cons y ys ih =>
    unfold sdedup
    split
    · exact ih
    · next h =>
      rw [List.nodup_cons]
      exact ⟨fun hc => h ((mem_sdedup ys y).mp hc), ih⟩

@[simp] theorem mkQuad_triple_graph (q : Quad) : mkQuad q.triple q.graph = q := rfl
@[simp] theorem mkQuad_triple (t : Triple) (c : Nat) : (mkQuad t c).triple = t := rfl
@[simp] theorem mkQuad_graph (t : Triple) (c : Nat) : (mkQuad t c).graph = c := rfl

theorem mkQuad_inj {t t' : Triple} {c c' : Nat} (h : mkQuad t c = mkQuad t' c') : t = t' ∧ c = c' := by
  have h1 := congrArg Quad.triple h
  have h2 := congrArg Quad.graph h
  simp only [mkQuad_triple, mkQuad_graph] at h1 h2
  exact ⟨h1, h2⟩

theorem quad_ext {q q' : Quad} (h1 : q.triple = q'.triple) (h2 : q.graph = q'.graph) : q = q' := by
  rw [← mkQuad_triple_graph q, ← mkQuad_triple_graph q', h1, h2]

theorem mem_ctxsOf (cur : List Quad) (t : Triple) (c : Nat) : c ∈ ctxsOf cur t ↔ mkQuad t c ∈ cur := by
  unfold ctxsOf
  simp only [List.mem_map, List.mem_filter, beq_iff_eq]
  constructor
  · rintro ⟨q, ⟨hq, ht⟩, hc⟩
    rw [← ht, ← hc]
    exact hq
  · intro h
    exact ⟨mkQuad t c, ⟨h, rfl⟩, rfl⟩

theorem nodup_ctxsOf {cur : List Quad} (hnd : cur.Nodup) (t : Triple) : (ctxsOf cur t).Nodup := by
  unfold ctxsOf
  refine List.Nodup.map_on ?_ (hnd.filter _)
  intro x hx y hy hxy
  simp only [List.mem_filter, beq_iff_eq] at hx hy
  exact quad_ext (hx.2.trans hy.2.symm) hxy

theorem mem_memTriples (cur : List Quad) (p : Pat) (tc : Triple × List Nat) :
    tc ∈ memTriples cur p ↔ (∃ q ∈ cur, p.matches q = true ∧ q.triple = tc.1) ∧ tc.2 = ctxsOf cur tc.1 := by
  unfold memTriples
  simp only [List.mem_map, mem_sdedup, List.mem_filter]
  constructor
  · rintro ⟨t, ⟨q, ⟨hq, hm⟩, ht⟩, rfl⟩
    exact ⟨⟨q, hq, hm, ht⟩, rfl⟩
  · rintro ⟨⟨q, hq, hm, ht⟩, h2⟩
    refine ⟨tc.1, ⟨q, ⟨hq, hm⟩, ht⟩, ?_⟩
    rw [← h2]

theorem nodup_memTriples_fst (cur : List Quad) (p : Pat) : ((memTriples cur p).map (·.1)).Nodup := by
  unfold memTriples
  rw [List.map_map]
  have : ((fun x : Triple × List Nat => x.1) ∘ fun t => (t, ctxsOf cur t)) = id := rfl
  rw [this, List.map_id]
  exact nodup_sdedup _

theorem nodup_memTriples (cur : List Quad) (p : Pat) : (memTriples cur p).Nodup :=
  List.Nodup.of_map _ (nodup_memTriples_fst cur p)

theorem matches_graph {p : Pat} {g : Nat} (hp : p.2.2.2 = some g) {q : Quad} (h : p.matches q = true) :
    q.graph = g := by
  obtain ⟨a, b, c, d⟩ := p
  simp only at hp
  subst hp
  simp only [Pat.matches, matchPos, Bool.and_eq_true, beq_iff_eq] at h
  exact h.2

theorem matches_anyGraph {p : Pat} (hp : p.2.2.2 = none) : p.anyGraph = p := by
  obtain ⟨a, b, c, d⟩ := p
  simp only at hp
  subst hp
  rfl

theorem mem_graphTriples {cur : List Quad} {p : Pat} {g : Nat} (hp : p.2.2.2 = some g) (x : Quad) :
    x ∈ graphTriples cur p g ↔ x ∈ cur ∧ p.matches x = true := by
  unfold graphTriples
  simp only [List.mem_map, mem_memTriples]
  constructor
  · rintro ⟨tc, ⟨⟨q, hq, hm, ht⟩, _⟩, rfl⟩
    rw [← ht, ← matches_graph hp hm, mkQuad_triple_graph]
    exact ⟨hq, hm⟩
  · rintro ⟨hx, hm⟩
    refine ⟨(x.triple, ctxsOf cur x.triple), ⟨⟨x, hx, hm, rfl⟩, rfl⟩, ?_⟩
    simp only
    rw [← matches_graph hp hm, mkQuad_triple_graph]

theorem nodup_graphTriples (cur : List Quad) (p : Pat) (g : Nat) : (graphTriples cur p g).Nodup := by
  unfold graphTriples
  refine List.Nodup.map_on ?_ (nodup_memTriples cur p)
  intro x hx y hy hxy
  have h1 := (mkQuad_inj hxy).1
  rw [mem_memTriples] at hx hy
  exact Prod.ext h1 (by rw [hx.2, hy.2, h1])

theorem mem_cgQuads {cur : List Quad} {p : Pat} (hp : p.2.2.2 = none) (x : Quad) :
    x ∈ cgQuads cur p ↔ x ∈ cur ∧ p.matches x = true := by
  unfold cgQuads
  rw [matches_anyGraph hp]
  simp only [List.mem_flatMap, List.mem_map, mem_memTriples]
  constructor
  · rintro ⟨tc, ⟨⟨q, hq, hm, ht⟩, h2⟩, c, hc, rfl⟩
    rw [h2, mem_ctxsOf] at hc
    refine ⟨hc, ?_⟩
    obtain ⟨a, b, c', d⟩ := p
    simp only at hp
    subst hp
    rw [← ht]
    simpa [Pat.matches, matchPos, mkQuad, Quad.triple] using hm
  · rintro ⟨hx, hm⟩
    refine ⟨(x.triple, ctxsOf cur x.triple), ⟨⟨x, hx, hm, rfl⟩, rfl⟩, x.graph, ?_, rfl⟩
    simp only
    rw [mem_ctxsOf]
    exact hx

theorem nodup_cgQuads {cur : List Quad} (hnd : cur.Nodup) (p : Pat) : (cgQuads cur p).Nodup := by
  unfold cgQuads
  rw [List.nodup_flatMap]
  constructor
  · intro tc htc
    rw [mem_memTriples] at htc
    rw [htc.2]
    refine List.Nodup.map ?_ (nodup_ctxsOf hnd _)
    intro c c' h
    exact (mkQuad_inj h).2
  · have h := nodup_memTriples_fst cur p.anyGraph
    rw [List.Nodup, List.pairwise_map] at h
    refine h.imp ?_
    intro a b hab
    simp only [Function.onFun]
    intro x hxa hxb
    simp only [List.mem_map] at hxa hxb
    obtain ⟨c, _, rfl⟩ := hxa
    obtain ⟨c', _, h2⟩ := hxb
    exact hab (mkQuad_inj h2).1.symm

theorem pat_matches_self (q x : Quad) : q.pat.matches x = true ↔ x = q := by
  obtain ⟨a, b, c, d⟩ := q
  obtain ⟨a', b', c', d'⟩ := x
  simp only [Quad.pat, Pat.matches, matchPos, Bool.and_eq_true, beq_iff_eq, Prod.mk.injEq]
  constructor
  · rintro ⟨⟨⟨h1, h2⟩, h3⟩, h4⟩; exact ⟨h1, h2, h3, h4⟩
  · rintro ⟨h1, h2, h3, h4⟩; exact ⟨⟨⟨h1, h2⟩, h3⟩, h4⟩

theorem ground_pat {p : Pat} {q : Quad} (h : p.ground? = some q) : p = q.pat := by
  obtain ⟨a, b, c, d⟩ := p
  cases a <;> cases b <;> cases c <;> cases d <;> simp [Pat.ground?] at h
  subst h
  rfl

theorem memTriples_isEmpty (cur : List Quad) (p : Pat) :
    (memTriples cur p).isEmpty = true ↔ ∀ q ∈ cur, p.matches q = false := by
  rw [List.isEmpty_iff]
  constructor
  · intro h q hq
    cases hm : p.matches q with
    | false => rfl
    | true =>
      have : (q.triple, ctxsOf cur q.triple) ∈ memTriples cur p :=
        (mem_memTriples cur p _).mpr ⟨⟨q, hq, hm, rfl⟩, rfl⟩
      rw [h] at this
      cases this
  · intro h
    cases hl : memTriples cur p with
    | nil => rfl
    | cons tc r =>
      have : tc ∈ memTriples cur p := by rw [hl]; simp
      obtain ⟨⟨q, hq, hm, _⟩, _⟩ := (mem_memTriples cur p tc).mp this
      rw [h q hq] at hm
      cases hm

theorem memTriples_isEmpty_pat (cur : List Quad) (q : Quad) :
    (memTriples cur q.pat).isEmpty = true ↔ q ∉ cur := by
  rw [memTriples_isEmpty]
  constructor
  · intro h hq
    have := h q hq
    rw [(pat_matches_self q q).mpr rfl] at this
    cases this
  · intro h x hx
    cases hm : q.pat.matches x with
    | false => rfl
    | true =>
      rw [pat_matches_self] at hm
      subst hm
      exact absurd hx h

/-! ### the undo-log invariant over the code's branches -/

theorem inv_removals {init cur : List Quad} {log : List Entry} (h : Inv init cur log) (p : Pat)
    (ms : List Quad) (hms : ms.Nodup) (hmem : ∀ x, x ∈ ms ↔ x ∈ cur ∧ p.matches x = true) :
    Inv init (cur.filter (fun q => !p.matches q)) (logRemovals log ms) := by
  have h1 := inv_logRemovals (init := init) ms hms cur log h (fun q hq => ((hmem q).mp hq).1)
  refine h1.congr ?_
  intro x
  rw [mem_foldl_sremove, hmem]
  simp only [List.mem_filter, Bool.not_eq_true', not_and, Bool.not_eq_true]
  constructor
  · rintro ⟨h1, h2⟩; exact ⟨h1, h2 h1⟩
  · rintro ⟨h1, h2⟩; exact ⟨h1, fun _ => h2⟩

theorem removeLog_none {cur : List Quad} {log : List Entry} {p : Pat} (h : removeLog cur log p = none) :
    ∀ q ∈ cur, p.matches q = false := by
  unfold removeLog at h
  split at h
  · split at h
    · split at h <;> cases h
    · cases h
  · split at h
    · next he => exact (memTriples_isEmpty cur p).mp he
    · cases h

theorem filter_of_none {cur : List Quad} {p : Pat} (h : ∀ q ∈ cur, p.matches q = false) :
    cur.filter (fun q => !p.matches q) = cur := by
  rw [List.filter_eq_self]
  intro q hq
  simp [h q hq]

theorem sremove_setEq_filter (cur : List Quad) (q : Quad) :
    SetEq (sremove cur q) (cur.filter (fun x => !q.pat.matches x)) := by
  intro x
  rw [mem_sremove, List.mem_filter]
  constructor
  · rintro ⟨h1, h2⟩
    refine ⟨h2, ?_⟩
    cases hm : q.pat.matches x with
    | false => rfl
    | true => exact absurd ((pat_matches_self q x).mp hm) h1
  · rintro ⟨h1, h2⟩
    refine ⟨?_, h1⟩
    intro e
    rw [(pat_matches_self q x).mpr e] at h2
    cases h2

theorem inv_removeLog {init cur : List Quad} {log l : List Entry} (h : Inv init cur log)
    (hnd : cur.Nodup) (p : Pat) (hp : p.wellNamed = true) (hl : removeLog cur log p = some l) :
    Inv init (cur.filter (fun q => !p.matches q)) l := by
  unfold removeLog at hl
  unfold Pat.wellNamed at hp
  split at hl
  · next hg =>
    rw [hg] at hp
    simp only [Option.isSome_none, Bool.false_or] at hp
    split at hl
    · next g hpg =>
      rw [hpg] at hp
      simp only at hp
      rw [if_pos hp] at hl
      cases hl
      exact inv_removals h p _ (nodup_graphTriples cur p g) (mem_graphTriples hpg)
    · next hpg =>
      cases hl
      exact inv_removals h p _ (nodup_cgQuads hnd p) (mem_cgQuads hpg)
  · next q hg =>
    have hpq := ground_pat hg
    split at hl
    · cases hl
    · next he =>
      cases hl
      subst hpq
      have hq : q ∈ cur := by
        by_contra hc
        exact he ((memTriples_isEmpty_pat cur q).mpr hc)
      exact (inv_rem1 h q hq).congr (sremove_setEq_filter cur q)

theorem addLog_none {cur : List Quad} {log : List Entry} {q : Quad} (h : addLog cur log q = none) : q ∈ cur := by
  unfold addLog at h
  split at h
  · cases h
  · next he =>
    by_contra hc
    exact he ((memTriples_isEmpty_pat cur q).mpr hc)

theorem addLog_some {cur : List Quad} {log l : List Entry} {q : Quad} (h : addLog cur log q = some l) :
    q ∉ cur ∧ l = cancelOr log q .add .remove := by
  unfold addLog at h
  split at h
  · next he =>
    cases h
    exact ⟨(memTriples_isEmpty_pat cur q).mp he, rfl⟩
  · cases h

theorem sinsert_of_mem {α : Type} [DecidableEq α] {l : List α} {x : α} (h : x ∈ l) : sinsert l x = l := by
  unfold sinsert
  rw [if_pos h]

/-- what `add` does to the wrapped store's quads -/
theorem xw_add_cur (s : XW) (q : Quad) : (s.add q).m.cur = sinsert s.m.cur q := by
  unfold XW.add
  split
  · next h => rw [sinsert_of_mem (addLog_none h)]
  · rfl

/-- what `remove` does to the wrapped store's quads -/
theorem xw_remove_cur (s : XW) (p : Pat) : (s.remove p).m.cur = s.m.cur.filter (fun q => !p.matches q) := by
  unfold XW.remove
  split
  · next h => rw [filter_of_none (removeLog_none h)]
  · rfl

theorem xinv_add {init : List Quad} {s : XW} (h : Inv init s.m.cur s.log) (q : Quad) :
    Inv init (s.add q).m.cur (s.add q).log := by
  unfold XW.add
  split
  · exact h
  · next l hl =>
    obtain ⟨hq, rfl⟩ := addLog_some hl
    exact inv_add1 h q hq

theorem xinv_remove {init : List Quad} {s : XW} (h : Inv init s.m.cur s.log) (hnd : s.m.cur.Nodup)
    (p : Pat) (hp : p.wellNamed = true) : Inv init (s.remove p).m.cur (s.remove p).log := by
  unfold XW.remove
  split
  · exact h
  · next l hl => exact inv_removeLog h hnd p hp hl

def XOp.wellNamed : XOp → Bool
  | .remove p => p.wellNamed
  | _ => true

def XCmd.wellNamed : XCmd → Bool
  | .op o => o.wellNamed
  | _ => true

theorem xnodup_step {s : XW} (hnd : s.m.cur.Nodup) (o : XOp) : (s.step o).m.cur.Nodup := by
  cases o with
  | add q => simp only [XW.step, xw_add_cur]; exact nodup_sinsert hnd
  | remove p => simp only [XW.step, xw_remove_cur]; exact hnd.filter _
  | bind a b o => exact hnd
  | pass => exact hnd

theorem xinv_step {init : List Quad} {s : XW} (h : Inv init s.m.cur s.log) (hnd : s.m.cur.Nodup)
    (o : XOp) (ho : o.wellNamed = true) : Inv init (s.step o).m.cur (s.step o).log := by
  cases o with
  | add q => exact xinv_add h q
  | remove p => exact xinv_remove h hnd p ho
  | bind a b o => exact h
  | pass => exact h

/-! ### rollback through the store calls -/

theorem sremove_eq_filter (cur : List Quad) (q : Quad) :
    sremove cur q = cur.filter (fun x => !q.pat.matches x) := by
  induction cur with
  | nil => rfl
  | cons y ys ih =>
    rw [List.filter_cons, sremove]
    by_cases hy : y = q
    · subst hy
      have : y.pat.matches y = true := (pat_matches_self y y).mpr rfl
      rw [if_pos rfl, this, ih]
      simp
    · have : q.pat.matches y = false := by
        cases hm : q.pat.matches y with
        | false => rfl
        | true => exact absurd ((pat_matches_self q y).mp hm) hy
      simp only [hy, if_false, this, Bool.not_false, if_true, ih]

theorem replayMem_cur (log : List Entry) : ∀ (m : Mem), (replayMem m log).cur = replay m.cur log := by
  induction log with
  | nil => intro m; rfl
  | cons e es ih =>
    intro m
    obtain ⟨q, u⟩ := e
    cases u with
    | add => simp only [replayMem, replay, ih]; rfl
    | remove => simp only [replayMem, replay, ih, Mem.remove, sremove_eq_filter]

theorem replayMem_b (log : List Entry) : ∀ (m : Mem), (replayMem m log).b = m.b := by
  induction log with
  | nil => intro m; rfl
  | cons e es ih =>
    intro m
    obtain ⟨q, u⟩ := e
    cases u <;> simp only [replayMem, ih] <;> rfl

/-- the graph names the store has seen: nothing is forgotten, and replaying a log whose `add`
    entries name known graphs teaches it nothing -/
theorem replayMem_ctxs (log : List Entry) : ∀ (m : Mem), (∀ q, (q, Undo.add) ∈ log → q.graph ∈ m.ctxs) →
    (replayMem m log).ctxs = m.ctxs := by
  induction log with
  | nil => intro m _; rfl
  | cons e es ih =>
    intro m h
    obtain ⟨q, u⟩ := e
    cases u with
    | add =>
      have hq : q.graph ∈ m.ctxs := h q (by simp)
      have hm : (m.add q).ctxs = m.ctxs := by simp only [Mem.add, sinsert_of_mem hq]
      simp only [replayMem]
      rw [ih (m.add q) (by intro x hx; rw [hm]; exact h x (List.mem_cons_of_mem _ hx)), hm]
    | remove =>
      simp only [replayMem]
      rw [ih (m.remove q.pat) (by intro x hx; exact h x (List.mem_cons_of_mem _ hx))]
      rfl

/-! ### a wrapper over a wrapper -/

@[simp] theorem withInner_m (n : Nest) (w : XW) : (n.withInner w).m = w.m := rfl
@[simp] theorem withInner_logIn (n : Nest) (w : XW) : (n.withInner w).logIn = w.log := rfl
@[simp] theorem withInner_logOut (n : Nest) (w : XW) : (n.withInner w).logOut = n.logOut := rfl
@[simp] theorem inner_m (n : Nest) : n.inner.m = n.m := rfl
@[simp] theorem inner_log (n : Nest) : n.inner.log = n.logIn := rfl

theorem nest_add_cur (n : Nest) (q : Quad) : (n.add q).m.cur = sinsert n.m.cur q := by
  unfold Nest.add
  split
  · next h => rw [sinsert_of_mem (addLog_none h)]
  · simp only [withInner_m, xw_add_cur, inner_m]

theorem nest_remove_cur (n : Nest) (p : Pat) : (n.remove p).m.cur = n.m.cur.filter (fun q => !p.matches q) := by
  unfold Nest.remove
  split
  · next h => rw [filter_of_none (removeLog_none h)]
  · simp only [withInner_m, xw_remove_cur, inner_m]

theorem nest_outer_inv_add {base : List Quad} {n : Nest} (h : Inv base n.m.cur n.logOut) (q : Quad) :
    Inv base (n.add q).m.cur (n.add q).logOut := by
  rw [nest_add_cur]
  unfold Nest.add
  split
  · next hl => rw [sinsert_of_mem (addLog_none hl)]; exact h
  · next l hl =>
    obtain ⟨hq, rfl⟩ := addLog_some hl
    exact inv_add1 h q hq

theorem nest_outer_inv_remove {base : List Quad} {n : Nest} (h : Inv base n.m.cur n.logOut)
    (hnd : n.m.cur.Nodup) (p : Pat) (hp : p.wellNamed = true) :
    Inv base (n.remove p).m.cur (n.remove p).logOut := by
  rw [nest_remove_cur]
  unfold Nest.remove
  split
  · next hl => rw [filter_of_none (removeLog_none hl)]; exact h
  · next l hl => exact inv_removeLog h hnd p hp hl

theorem nest_inner_inv_add {base : List Quad} {n : Nest} (h : Inv base n.m.cur n.logIn) (q : Quad) :
    Inv base (n.add q).m.cur (n.add q).logIn := by
  unfold Nest.add
  split
  · exact h
  · exact xinv_add (s := n.inner) h q

theorem nest_inner_inv_remove {base : List Quad} {n : Nest} (h : Inv base n.m.cur n.logIn)
    (hnd : n.m.cur.Nodup) (p : Pat) (hp : p.wellNamed = true) :
    Inv base (n.remove p).m.cur (n.remove p).logIn := by
  unfold Nest.remove
  split
  · exact h
  · exact xinv_remove (s := n.inner) h hnd p hp

theorem pat_wellNamed (q : Quad) : q.pat.wellNamed = true := by
  obtain ⟨a, b, c, d⟩ := q
  rfl

theorem replayInner_cur (log : List Entry) : ∀ (w : XW), (replayInner w log).m.cur = replay w.m.cur log := by
  induction log with
  | nil => intro w; rfl
  | cons e es ih =>
    intro w
    obtain ⟨q, u⟩ := e
    cases u with
    | add => simp only [replayInner, replay, ih, xw_add_cur]
    | remove => simp only [replayInner, replay, ih, xw_remove_cur, sremove_eq_filter]

theorem replayInner_inv {base : List Quad} (log : List Entry) : ∀ (w : XW), Inv base w.m.cur w.log →
    w.m.cur.Nodup → Inv base (replayInner w log).m.cur (replayInner w log).log := by
  induction log with
  | nil => intro w h _; exact h
  | cons e es ih =>
    intro w h hnd
    obtain ⟨q, u⟩ := e
    cases u with
    | add =>
      simp only [replayInner]
      exact ih _ (xinv_add h q) (by rw [xw_add_cur]; exact nodup_sinsert hnd)
    | remove =>
      simp only [replayInner]
      exact ih _ (xinv_remove h hnd q.pat (pat_wellNamed q)) (by rw [xw_remove_cur]; exact hnd.filter _)

theorem xw_add_b (s : XW) (q : Quad) : (s.add q).m.b = s.m.b := by
  unfold XW.add; split <;> rfl

theorem xw_remove_b (s : XW) (p : Pat) : (s.remove p).m.b = s.m.b := by
  unfold XW.remove; split <;> rfl

theorem replayInner_b (log : List Entry) : ∀ (w : XW), (replayInner w log).m.b = w.m.b := by
  induction log with
  | nil => intro w; rfl
  | cons e es ih =>
    intro w
    obtain ⟨q, u⟩ := e
    cases u with
    | add => simp only [replayInner, ih, xw_add_b]
    | remove => simp only [replayInner, ih, xw_remove_b]

theorem nest_add_b (n : Nest) (q : Quad) : (n.add q).m.b = n.m.b := by
  unfold Nest.add; split
  · rfl
  · simp only [withInner_m, xw_add_b, inner_m]

theorem nest_remove_b (n : Nest) (p : Pat) : (n.remove p).m.b = n.m.b := by
  unfold Nest.remove; split
  · rfl
  · simp only [withInner_m, xw_remove_b, inner_m]

theorem nodup_replay' (log : List Entry) : ∀ (cur : List Quad), cur.Nodup → (replay cur log).Nodup := by
  induction log with
  | nil => intro cur h; simpa [replay]
  | cons e es ih =>
    intro cur h
    obtain ⟨q, u⟩ := e
    cases u with
    | add => exact ih _ (nodup_sinsert h)
    | remove => exact ih _ (nodup_sremove h)

/-! ### reads are functions of the quad set -/

theorem memTriples_congr {c c' : List Quad} (h : SetEq c c') (p : Pat) (t : Triple) (g : Nat) :
    (∃ cs, (t, cs) ∈ memTriples c p ∧ g ∈ cs) ↔ (∃ cs, (t, cs) ∈ memTriples c' p ∧ g ∈ cs) := by
  have key : ∀ (a b : List Quad), SetEq a b → (∃ cs, (t, cs) ∈ memTriples a p ∧ g ∈ cs) →
      (∃ cs, (t, cs) ∈ memTriples b p ∧ g ∈ cs) := by
    rintro a b hab ⟨cs, hm, hg⟩
    rw [mem_memTriples] at hm
    obtain ⟨⟨q, hq, hpm, ht⟩, hcs⟩ := hm
    simp only at ht hcs
    refine ⟨ctxsOf b t, (mem_memTriples b p _).mpr ⟨⟨q, (hab q).mp hq, hpm, ht⟩, rfl⟩, ?_⟩
    rw [mem_ctxsOf, ← hab]
    rw [hcs, mem_ctxsOf] at hg
    exact hg
  exact ⟨key c c' h, key c' c h.symm⟩

theorem length_eq_of_setEq {α : Type} {a b : List α} (ha : a.Nodup) (hb : b.Nodup) (h : SetEq a b) :
    a.length = b.length :=
  ((List.perm_ext_iff_of_nodup ha hb).mpr h).length_eq

theorem memLen_congr {c c' : List Quad} (hc : c.Nodup) (hc' : c'.Nodup) (h : SetEq c c') (g : Option Nat) :
    memLen c g = memLen c' g := by
  cases g with
  | some g =>
    simp only [memLen]
    apply length_eq_of_setEq (hc.filter _) (hc'.filter _)
    intro x
    simp only [List.mem_filter, h x]
  | none =>
    simp only [memLen]
    apply length_eq_of_setEq (nodup_sdedup _) (nodup_sdedup _)
    intro x
    simp only [mem_sdedup, List.mem_map]
    constructor
    · rintro ⟨q, hq, rfl⟩; exact ⟨q, (h q).mp hq, rfl⟩
    · rintro ⟨q, hq, rfl⟩; exact ⟨q, (h q).mpr hq, rfl⟩

/-! ### the graph names the wrapped store knows (`Memory.__all_contexts`) -/

structure Known (m : Mem) (log : List Entry) : Prop where
  cur : ∀ q ∈ m.cur, q.graph ∈ m.ctxs
  log : ∀ q, (q, Undo.add) ∈ log → q.graph ∈ m.ctxs

theorem cancelOr_add_sub {log : List Entry} {q x : Quad} (h : (x, Undo.add) ∈ cancelOr log q .add .remove) :
    (x, Undo.add) ∈ log := by
  unfold cancelOr at h
  split at h
  · exact List.mem_of_mem_erase h
  · rcases List.mem_append.mp h with h | h
    · exact h
    · simp at h

theorem cancelOr_rem_sub {log : List Entry} {q x : Quad} (h : (x, Undo.add) ∈ cancelOr log q .remove .add) :
    (x, Undo.add) ∈ log ∨ x = q := by
  unfold cancelOr at h
  split at h
  · exact Or.inl (List.mem_of_mem_erase h)
  · rcases List.mem_append.mp h with h | h
    · exact Or.inl h
    · simp at h; exact Or.inr h

theorem cgQuads_sub {cur : List Quad} {p : Pat} {x : Quad} (h : x ∈ cgQuads cur p) : x ∈ cur := by
  have e : cgQuads cur p = cgQuads cur p.anyGraph := rfl
  rw [e] at h
  exact ((mem_cgQuads (p := p.anyGraph) rfl x).mp h).1

theorem graphTriples_sub {cur : List Quad} {p : Pat} {g : Nat} (hp : p.2.2.2 = some g) {x : Quad}
    (h : x ∈ graphTriples cur p g) : x ∈ cur := ((mem_graphTriples hp x).mp h).1

theorem removeLog_add_sub {cur : List Quad} {log l : List Entry} {p : Pat} (hl : removeLog cur log p = some l)
    {x : Quad} (h : (x, Undo.add) ∈ l) : (x, Undo.add) ∈ log ∨ x ∈ cur := by
  unfold removeLog at hl
  split at hl
  · split at hl
    · next g hpg =>
      split at hl
      · cases hl
        rcases mem_logRemovals _ _ _ h with h1 | h1
        · exact Or.inl h1
        · exact Or.inr (graphTriples_sub hpg h1)
      · cases hl
        rcases mem_logRemovals _ _ _ h with h1 | h1
        · exact Or.inl h1
        · exact Or.inr (cgQuads_sub h1)
    · cases hl
      rcases mem_logRemovals _ _ _ h with h1 | h1
      · exact Or.inl h1
      · exact Or.inr (cgQuads_sub h1)
  · next q hg =>
    split at hl
    · cases hl
    · next he =>
      cases hl
      rcases cancelOr_rem_sub h with h1 | h1
      · exact Or.inl h1
      · subst h1
        have hpq := ground_pat hg
        subst hpq
        refine Or.inr ?_
        by_contra hc
        exact he ((memTriples_isEmpty_pat cur x).mpr hc)

theorem known_step {s : XW} (h : Known s.m s.log) (o : XOp) : Known (s.step o).m (s.step o).log := by
  cases o with
  | add q =>
    simp only [XW.step, XW.add]
    split
    · exact h
    · next l hl =>
      obtain ⟨_, rfl⟩ := addLog_some hl
      constructor
      · intro x hx
        simp only [Mem.add, mem_sinsert] at hx ⊢
        rcases hx with rfl | hx
        · exact Or.inl rfl
        · exact Or.inr (h.cur x hx)
      · intro x hx
        simp only [Mem.add, mem_sinsert]
        exact Or.inr (h.log x (cancelOr_add_sub hx))
  | remove p =>
    simp only [XW.step, XW.remove]
    split
    · exact h
    · next l hl =>
      constructor
      · intro x hx
        simp only [Mem.remove, List.mem_filter] at hx ⊢
        exact h.cur x hx.1
      · intro x hx
        simp only [Mem.remove]
        rcases removeLog_add_sub hl hx with h1 | h1
        · exact h.log x h1
        · exact h.cur x h1
  | bind a b o => exact ⟨h.cur, h.log⟩
  | pass => exact h

theorem mem_replay_sub (log : List Entry) : ∀ (cur : List Quad) (x : Quad),
    x ∈ replay cur log → x ∈ cur ∨ (x, Undo.add) ∈ log := by
  induction log with
  | nil => intro cur x h; exact Or.inl h
  | cons e es ih =>
    intro cur x h
    obtain ⟨q, u⟩ := e
    cases u with
    | add =>
      simp only [replay] at h
      rcases ih _ x h with h1 | h1
      · rcases mem_sinsert.mp h1 with rfl | h2
        · exact Or.inr (by simp)
        · exact Or.inl h2
      · exact Or.inr (List.mem_cons_of_mem _ h1)
    | remove =>
      simp only [replay] at h
      rcases ih _ x h with h1 | h1
      · exact Or.inl (mem_sremove.mp h1).2
      · exact Or.inr (List.mem_cons_of_mem _ h1)

theorem known_cmd {s : XW} (h : Known s.m s.log) (c : XCmd) :
    Known (s.cmd c).m (s.cmd c).log ∧ (∀ g ∈ s.m.ctxs, g ∈ (s.cmd c).m.ctxs) := by
  cases c with
  | op o =>
    refine ⟨known_step h o, ?_⟩
    intro g hg
    cases o with
    | add q =>
      simp only [XW.cmd, XW.step, XW.add]
      split
      · exact hg
      · simp only [Mem.add, mem_sinsert]; exact Or.inr hg
    | remove p =>
      simp only [XW.cmd, XW.step, XW.remove]
      split
      · exact hg
      · exact hg
    | bind a b o => exact hg
    | pass => exact hg
  | commit => exact ⟨⟨h.cur, by simp [XW.cmd, XW.commit]⟩, fun g hg => hg⟩
  | rollback =>
    have hc : (s.cmd .rollback).m.ctxs = s.m.ctxs := by
      simp only [XW.cmd, XW.rollback]
      exact replayMem_ctxs s.log s.m h.log
    refine ⟨⟨?_, by simp [XW.cmd, XW.rollback]⟩, fun g hg => by rw [hc]; exact hg⟩
    intro x hx
    rw [hc]
    simp only [XW.cmd, XW.rollback, replayMem_cur] at hx
    rcases mem_replay_sub _ _ _ hx with h1 | h1
    · exact h.cur x h1
    · exact h.log x h1

theorem known_run (cs : List XCmd) : ∀ (s : XW) (c0 : List Nat), Known s.m s.log → (∀ g ∈ c0, g ∈ s.m.ctxs) →
    Known (s.run cs).m (s.run cs).log ∧ (∀ g ∈ c0, g ∈ (s.run cs).m.ctxs) := by
  induction cs with
  | nil => intro s c0 h h0; exact ⟨h, h0⟩
  | cons c cs ih =>
    intro s c0 h h0
    have h1 := known_cmd h c
    exact ih (s.cmd c) c0 h1.1 (fun g hg => h1.2 g (h0 g hg))

end RV.C18
