import RV.C18.Model
/-
  C18, round g — the whole of `rdflib/plugins/stores/auditable.py`, branch by branch, over a
  model of the part of `Memory` the wrapper talks to.

  Wrapped store (`Mem`): the quad set `cur` (C01/C02), `ctxs` = `Memory.__all_contexts`
  (graph names the store has seen; `Memory` is graph aware, so a name never leaves it through
  `add`/`remove`), and the two binding dictionaries `ns` (prefix → namespace) and `pf`
  (namespace → prefix) of `Memory.bind`.

  Wrapper code (`AuditableStore`):
  * `add`      : presence test through `self.store.triples(triple, context)`; early return;
                 `try: reverseOps.remove((…,"add")) except ValueError: reverseOps.append((…,"remove"))`;
                 `self.store.add`.                                                (`addLog`, `XW.add`)
  * `remove`   : `if None in [s, p, o, context]` → `if ctxId:` loop over `self.store.triples(pattern, context)`
                 `else:` loop over `ConjunctiveGraph(self.store).quads(pattern)` (one reverse op per
                 quad the store yields: `for (s,p,o), cg in store.triples(…): for ctx in cg`);
                 fully bound → presence test through `self.triples`, early return, ONE cancel-or-append;
                 then `self.store.remove(pattern, context)`.                      (`removeLog`, `XW.remove`)
  * `rollback` : `for … in reverseOps: self.store.add / self.store.remove(…, Graph(self.store, ctx))`,
                 then clear.                                                      (`replayMem`)
  * `commit`   : clear.
  * `triples`, `__len__`, `contexts`, `bind`, `prefix`, `namespace`, `namespaces`, `open`, `close`,
    `destroy`, `query` : pass-through, nothing logged.                           (`memTriples`, `memLen`, …)
  * a wrapper over a wrapper (`Nest`): the outer wrapper's `self.store` is the inner wrapper, so
    every store call of the outer code is the inner wrapper's `add`/`remove` (logged there too).

  Graph names are naturals; the name `0` stands for an identifier that is falsy in Python
  (`URIRef("")`): `if ctxId:` sends it down the all-graphs branch.  `Graph.__init__` replaces a falsy
  identifier by a fresh blank node, so no `Graph` ever carries it (`truthy`).
-/
namespace RV.C18

abbrev Triple := Nat × Nat × Nat

def Quad.triple (q : Quad) : Triple := (q.1, q.2.1, q.2.2.1)
def Quad.graph (q : Quad) : Nat := q.2.2.2
def mkQuad (t : Triple) (c : Nat) : Quad := (t.1, t.2.1, t.2.2, c)
def Quad.pat (q : Quad) : Pat := (some q.1, some q.2.1, some q.2.2.1, some q.2.2.2)

/-- `None in [subject, predicate, object_, context]` is false exactly when this is `some` -/
def Pat.ground? : Pat → Option Quad
  | (some s, some p, some o, some g) => some (s, p, o, g)
  | _ => none

def Pat.anyGraph (p : Pat) : Pat := (p.1, p.2.1, p.2.2.1, none)

/-- `bool(ctxId)` -/
def truthy (g : Nat) : Bool := g != 0

/-- the graph a pattern names is one a `Graph` object can carry (only asked of patterns with a wildcard:
    the fully bound branch of `remove` never tests `ctxId`) -/
def Pat.wellNamed (p : Pat) : Bool :=
  p.ground?.isSome || (match p.2.2.2 with
    | some g => truthy g
    | none => true)

/-- one copy of each element -/
def sdedup {α : Type} [DecidableEq α] : List α → List α
  | [] => []
  | x :: xs => if x ∈ xs then sdedup xs else x :: sdedup xs

/-! ### the wrapped `Memory` store -/

/-- the two binding dictionaries of `Memory`: `__namespace` (prefix → namespace), `__prefix` (namespace → prefix) -/
structure Binds where
  ns : List (Nat × Nat) := []
  pf : List (Nat × Nat) := []
  deriving Repr, DecidableEq

structure Mem where
  cur : List Quad
  ctxs : List Nat := []
  b : Binds := {}
  deriving Repr, DecidableEq

/-- `Memory.__contexts(triple)` -/
def ctxsOf (cur : List Quad) (t : Triple) : List Nat :=
  (cur.filter (fun q => q.triple == t)).map Quad.graph

/-- `Memory.triples(pattern, context)`: every matching triple once, with the graphs that hold it
    (`p.2.2.2` = the `context` argument, `none` = all graphs) -/
def memTriples (cur : List Quad) (p : Pat) : List (Triple × List Nat) :=
  (sdedup ((cur.filter (fun q => p.matches q)).map Quad.triple)).map (fun t => (t, ctxsOf cur t))

/-- `ConjunctiveGraph(store).quads(pattern)`:
    `for (s, p, o), cg in self.store.triples((s, p, o), context=None): for ctx in cg: yield s, p, o, ctx` -/
def cgQuads (cur : List Quad) (p : Pat) : List Quad :=
  (memTriples cur p.anyGraph).flatMap (fun tc => tc.2.map (mkQuad tc.1))

/-- the wildcard branch for a named context (after fix C18-F3):
    `for (s, p, o), _cg in self.store.triples(pattern, context)`, each triple paired with `ctxId = g` -/
def graphTriples (cur : List Quad) (p : Pat) (g : Nat) : List Quad :=
  (memTriples cur p).map (fun tc => mkQuad tc.1 g)

/-- `Memory.__len__(context)`: triples of one graph, or distinct triples of the store -/
def memLen (cur : List Quad) : Option Nat → Nat
  | some g => (cur.filter (fun q => q.graph == g)).length
  | none => (sdedup (cur.map Quad.triple)).length

/-- `Memory.contexts(triple)` -/
def memContexts (m : Mem) : Option Triple → List Nat
  | none => m.ctxs
  | some t => ctxsOf m.cur t

def Mem.add (m : Mem) (q : Quad) : Mem :=
  { m with cur := sinsert m.cur q, ctxs := sinsert m.ctxs q.graph }

/-- `Memory.remove(pattern, context)` (graph aware: `__all_contexts` is left alone) -/
def Mem.remove (m : Mem) (p : Pat) : Mem :=
  { m with cur := m.cur.filter (fun q => !p.matches q) }

def alookup : List (Nat × Nat) → Nat → Option Nat
  | [], _ => none
  | (a, b) :: r, k => if a = k then some b else alookup r k

def aerase : List (Nat × Nat) → Nat → List (Nat × Nat)
  | [], _ => []
  | (a, b) :: r, k => if a = k then aerase r k else (a, b) :: aerase r k

def aset (l : List (Nat × Nat)) (k v : Nat) : List (Nat × Nat) := aerase l k ++ [(k, v)]

/-- `Memory.bind(prefix, namespace, override)` -/
def Binds.bind (m : Binds) (pfx nsp : Nat) (override : Bool) : Binds :=
  let boundNs := alookup m.ns pfx
  let boundPf := match alookup m.pf nsp with
    | some x => some x
    | none => boundNs.bind (alookup m.pf)
  if override then
    let ns1 := match boundPf with
      | some bp => aerase m.ns bp
      | none => m.ns
    let pf1 := match boundNs with
      | some bn => aerase m.pf bn
      | none => m.pf
    { m with ns := aset ns1 pfx nsp, pf := aset pf1 nsp pfx }
  else if boundPf.isNone && boundNs.isNone then
    { m with ns := aset m.ns pfx nsp, pf := aset m.pf nsp pfx }
  else m

def Mem.bind (m : Mem) (pfx nsp : Nat) (override : Bool) : Mem := { m with b := m.b.bind pfx nsp override }

/-! ### the wrapper's code -/

/-- bookkeeping of `add`; `none` = the early `return` (quad already there) -/
def addLog (cur : List Quad) (log : List Entry) (q : Quad) : Option (List Entry) :=
  if (memTriples cur q.pat).isEmpty then some (cancelOr log q .add .remove) else none

/-- bookkeeping of `remove`; `none` = the early `return` of the fully bound branch -/
def removeLog (cur : List Quad) (log : List Entry) (p : Pat) : Option (List Entry) :=
  match p.ground? with
  | none =>
    match p.2.2.2 with
    | some g =>
      if truthy g then some (logRemovals log (graphTriples cur p g))
      else some (logRemovals log (cgQuads cur p))
    | none => some (logRemovals log (cgQuads cur p))
  | some q =>
    if (memTriples cur p).isEmpty then none else some (cancelOr log q .remove .add)

/-- a wrapper directly over `Memory` -/
structure XW where
  m : Mem
  log : List Entry
  deriving Repr, DecidableEq

def XW.add (s : XW) (q : Quad) : XW :=
  match addLog s.m.cur s.log q with
  | none => s
  | some l => ⟨s.m.add q, l⟩

def XW.remove (s : XW) (p : Pat) : XW :=
  match removeLog s.m.cur s.log p with
  | none => s
  | some l => ⟨s.m.remove p, l⟩

def replayMem (m : Mem) : List Entry → Mem
  | [] => m
  | (q, .add) :: es => replayMem (m.add q) es
  | (q, .remove) :: es => replayMem (m.remove q.pat) es

def XW.rollback (s : XW) : XW := ⟨replayMem s.m s.log, []⟩
def XW.commit (s : XW) : XW := { s with log := [] }

/-- the operations a caller can send through the wrapper that are not reads -/
inductive XOp
  | add (q : Quad)
  | remove (p : Pat)
  | bind (pfx nsp : Nat) (override : Bool)
  | pass                      -- open / close / destroy / query: handed to the wrapped store, nothing logged
  deriving Repr

def XW.step (s : XW) : XOp → XW
  | .add q => s.add q
  | .remove p => s.remove p
  | .bind a b o => { s with m := s.m.bind a b o }
  | .pass => s

inductive XCmd
  | op (o : XOp)
  | commit
  | rollback
  deriving Repr

def XW.cmd (s : XW) : XCmd → XW
  | .op o => s.step o
  | .commit => s.commit
  | .rollback => s.rollback

def XW.run (s : XW) (cs : List XCmd) : XW := cs.foldl XW.cmd s

/-! ### the `Graph` objects the wrapper hands out -/

/-- which store a `Graph` object is bound to (where its `add` / `remove` go) -/
inductive Bound
  | wrapper
  | wrapped
  deriving DecidableEq, Repr

/-- a `Graph` object as far as writes are concerned: its name and its store -/
abbrev Handle := Nat × Bound

/-- `AuditableStore.contexts(triple)`: `ctx.__class__(self, ctx.identifier)` for every graph of the wrapped store's answer -/
def handOutContexts (m : Mem) (t : Option Triple) : List Handle :=
  (memContexts m t).map (fun g => (g, Bound.wrapper))

/-- `AuditableStore.triples(pattern, context)` (after fix C18-F4): each triple with its graphs, re-bound like `contexts()` -/
def handOutTriples (cur : List Quad) (p : Pat) : List (Triple × List Handle) :=
  (memTriples cur p).map (fun tc => (tc.1, tc.2.map (fun g => (g, Bound.wrapper))))

/-- the reads of the public surface that hand a `Graph` object (or something holding one) to the caller -/
inductive Source
  | storeContexts     -- AuditableStore.contexts()
  | storeTriples      -- the graphs AuditableStore.triples() yields with each triple
  | cgContexts        -- ConjunctiveGraph.contexts(): `for context in self.store.contexts(triple): if isinstance(context, Graph): yield context`
  | cgContextsOf      -- ConjunctiveGraph.contexts(triple), for every triple held
  | cgQuads           -- the graph of each quad of ConjunctiveGraph.quads(): `for (s,p,o), cg in self.store.triples(…): for ctx in cg`
  | getContext        -- get_context(name) / default_context / get_graph(name): `Graph(store=self.store, identifier=…)`, self.store = the wrapper
  | resource          -- Graph.resource(node).graph : the graph it was asked of
  | collection        -- Collection(graph, node).graph : the graph it was given
  | nsManager         -- graph.namespace_manager.graph : the graph it belongs to
  deriving DecidableEq, Repr

def Source.all : List Source :=
  [.storeContexts, .storeTriples, .cgContexts, .cgContextsOf, .cgQuads, .getContext, .resource, .collection, .nsManager]

/-- graph-layer objects (`rdflib/graph.py`) are built on `self.store`, and the `store` of a graph over the wrapper is the wrapper -/
def graphLayer (m : Mem) : List Handle := m.ctxs.map (fun g => (g, Bound.wrapper))

/-- the `Graph` objects each read hands out -/
def handOut (s : XW) : Source → List Handle
  | .storeContexts => handOutContexts s.m none
  | .storeTriples => (handOutTriples s.m.cur (none, none, none, none)).flatMap (·.2)
  | .cgContexts => handOutContexts s.m none
  | .cgContextsOf => (s.m.cur.map Quad.triple).flatMap (fun t => handOutContexts s.m (some t))
  | .cgQuads => (handOutTriples s.m.cur (none, none, none, none)).flatMap (·.2)
  | .getContext => graphLayer s.m
  | .resource => graphLayer s.m
  | .collection => graphLayer s.m
  | .nsManager => graphLayer s.m

/-- a write made through a `Graph` object: `Graph.add` / `Graph.remove` call `self.store.add / remove(…, context=self)` -/
inductive HWrite
  | add (t : Triple)
  | remove (s p o : Option Nat)
  deriving Repr

def XW.writeVia (s : XW) (h : Handle) : HWrite → XW
  | .add t =>
    match h.2 with
    | .wrapper => s.add (mkQuad t h.1)
    | .wrapped => { s with m := s.m.add (mkQuad t h.1) }
  | .remove a b c =>
    match h.2 with
    | .wrapper => s.remove (a, b, c, some h.1)
    | .wrapped => { s with m := s.m.remove (a, b, c, some h.1) }

/-! ### operations of `rdflib.graph` / `rdflib.store` that reach the wrapper as several calls -/

inductive GOp
  | store (o : XOp)                          -- one call of the wrapper
  | addN (qs : List Quad)                    -- `Store.addN`: `for s, p, o, c in quads: self.add((s, p, o), c)` (also `+=`, a parser's adds)
  | set (q : Quad)                           -- `Graph.set`: `self.remove((s, p, None)); self.add((s, p, o))`
  | isub (qs : List Quad)                    -- `Graph.__isub__`: `for triple in other: self.remove(triple)`
  | removeContext (g : Nat)                  -- `ConjunctiveGraph.remove_context`: `self.store.remove((None, None, None), context)`
  | addForeign (q : Quad) (extra : List Triple)  -- `ConjunctiveGraph.add` of a quad whose graph is a Graph of another store:
                                             -- `_graph(c)` copies that graph's triples in (`__iadd__`), then the quad is added
  deriving Repr

def GOp.expand : GOp → List XOp
  | .store o => [o]
  | .addN qs => qs.map .add
  | .set q => [.remove (some q.1, some q.2.1, none, some q.2.2.2), .add q]
  | .isub qs => qs.map (fun q => .remove q.pat)
  | .removeContext g => [.remove (none, none, none, some g)]
  | .addForeign q extra => extra.map (fun t => .add (mkQuad t q.graph)) ++ [.add q]

inductive GCmd
  | op (o : GOp)
  | commit
  | rollback
  deriving Repr

def GCmd.expand : GCmd → List XCmd
  | .op o => o.expand.map .op
  | .commit => [.commit]
  | .rollback => [.rollback]

/-! ### `Graph.parse` and SPARQL Update (`Graph.update`, rdflib's own evaluator) inside a transaction -/

/-- what the parser's sink and the update evaluator do to the graph, as the wrapper calls they make;
    `deleteWhere` depends on the content at that moment (the evaluator first solves the pattern) -/
inductive UOp
  | parse (qs : List Quad)        -- the sink calls `graph.add` once per statement, in document order
  | insertData (qs : List Quad)   -- `evalInsertData`: `g += triples` = `Store.addN`
  | deleteData (qs : List Quad)   -- `evalDeleteData`: `g -= triples` = one fully bound `remove` each
  | deleteWhere (p : Pat)         -- `evalDeleteWhere`: `evalBGP`, then per solution `cg -= [filled template]`:
                                  -- one fully bound `remove` per matching triple of the graph
  | clear (g : Nat)               -- `evalClear`: `graph.remove((None, None, None))`
  deriving Repr

def UOp.expandAt (cur : List Quad) : UOp → List XOp
  | .parse qs => qs.map .add
  | .insertData qs => qs.map .add
  | .deleteData qs => qs.map (fun q => .remove q.pat)
  | .deleteWhere p => (cur.filter (fun q => p.matches q)).map (fun q => .remove q.pat)
  | .clear g => [.remove (none, none, none, some g)]

def XW.ustep (s : XW) (u : UOp) : XW := (u.expandAt s.m.cur).foldl XW.step s

inductive UCmd
  | u (o : UOp)
  | g (o : GOp)
  | commit
  | rollback
  deriving Repr

def XW.ucmd (s : XW) : UCmd → XW
  | .u o => s.ustep o
  | .g o => o.expand.foldl XW.step s
  | .commit => s.commit
  | .rollback => s.rollback

def XW.urun (s : XW) (cs : List UCmd) : XW := cs.foldl XW.ucmd s

/-! ### two wrappers side by side over one store -/

structure X2 where
  m : Mem
  log0 : List Entry
  log1 : List Entry
  deriving Repr, DecidableEq

def X2.w (s : X2) (i : Bool) : XW := ⟨s.m, if i then s.log1 else s.log0⟩
def X2.put (s : X2) (i : Bool) (w : XW) : X2 :=
  if i then { s with m := w.m, log1 := w.log } else { s with m := w.m, log0 := w.log }

def X2.step (s : X2) (iop : Bool × XOp) : X2 := s.put iop.1 ((s.w iop.1).step iop.2)
def X2.run (s : X2) (ops : List (Bool × XOp)) : X2 := ops.foldl X2.step s
def X2.rollback (s : X2) (i : Bool) : X2 := s.put i (s.w i).rollback
def X2.commit (s : X2) (i : Bool) : X2 := s.put i (s.w i).commit

/-! ### a wrapper over a wrapper -/

structure Nest where
  m : Mem
  logIn : List Entry
  logOut : List Entry
  deriving Repr, DecidableEq

def Nest.inner (n : Nest) : XW := ⟨n.m, n.logIn⟩
def Nest.withInner (n : Nest) (w : XW) : Nest := { n with m := w.m, logIn := w.log }

/-- `outer.add`: the presence test reads through the inner wrapper; `self.store.add` is `inner.add` -/
def Nest.add (n : Nest) (q : Quad) : Nest :=
  match addLog n.m.cur n.logOut q with
  | none => n
  | some l => { n.withInner (n.inner.add q) with logOut := l }

def Nest.remove (n : Nest) (p : Pat) : Nest :=
  match removeLog n.m.cur n.logOut p with
  | none => n
  | some l => { n.withInner (n.inner.remove p) with logOut := l }

/-- the outer `rollback` replays its log through the inner wrapper's `add` / `remove` -/
def replayInner (w : XW) : List Entry → XW
  | [] => w
  | (q, .add) :: es => replayInner (w.add q) es
  | (q, .remove) :: es => replayInner (w.remove q.pat) es

inductive NCmd
  | op (o : XOp)            -- through the outer wrapper
  | commitOut
  | rollbackOut
  | commitIn                -- on the inner wrapper, behind the outer one's back
  | rollbackIn
  deriving Repr

def Nest.cmd (n : Nest) : NCmd → Nest
  | .op (.add q) => n.add q
  | .op (.remove p) => n.remove p
  | .op (.bind a b o) => { n with m := n.m.bind a b o }
  | .op .pass => n
  | .commitOut => { n with logOut := [] }
  | .rollbackOut => { n.withInner (replayInner n.inner n.logOut) with logOut := [] }
  | .commitIn => { n with logIn := [] }
  | .rollbackIn => n.withInner n.inner.rollback

def Nest.run (n : Nest) (cs : List NCmd) : Nest := cs.foldl Nest.cmd n

end RV.C18
