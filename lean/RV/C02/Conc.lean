import RV.C01.NModel
import RV.C02.Model
/-
  C02, rounds g/h — the Dataset / ConjunctiveGraph layer of `rdflib/graph.py` run over C01's
  CONCRETE model of `rdflib/plugins/stores/memory.py`, since round h the NESTED-dictionary model
  `RV.C01.NMem` (`NModel.lean`: the three indexes `spo[s][p][o]` / `pos[p][o][s]` / `osp[o][s][p]` as
  three-level insertion-ordered dictionaries with the `try/except` insertion ladder, leaf-only `del`
  and the level-by-level walks of `triples()`; `__tripleContexts` with the default-context compression,
  `__contextTriples`, `__all_contexts`, sticky `err` flag for every Python operation that can
  raise), instead of the abstract set of quads of `RV.C02.Mem`.

  Every function below is the function of the same name in `RV.C02.Model`, with each store
  call replaced by the call the code really makes on `Memory`:

    store.add((s,p,o), context=c)          → `C01.NMem.add`
    store.remove(pattern, context=c|None)  → `C01.NMem.remove`   (lazy generator walk, per-triple context loop)
    store.triples(pattern, context=c|None) → `C01.NMem.triplesC` (8-shape index dispatch, has-context test,
                                              each triple with `__contexts(triple)`)
    store.triples_choices                  → `Store.triples_choices`: one `triples` per list element
    store.contexts() / contexts(triple)    → `C01.NMem.contexts`
    store.__len__(context)                 → `C01.NMem.len`
    store.add_graph / remove_graph         → `C01.NMem.addGraph` / `removeGraph`
    _graph.__iadd__(foreign graph)         → `C01.NMem.iadd` (`Graph.__iadd__` → `Graph.addN` with its
                                              identifier filter → `Store.addN` → `Memory.add`)

  and, where the abstract model used an idempotent shortcut, the branch structure of the code:
  `Dataset.contexts()` / `graphs()` scan `store.contexts()` for the default graph and call
  `self.graph(DEFAULT)` (→ `store.add_graph`) only when it was not listed.

  Pure helpers of the layer that do not touch the store (`spocKey`, `pickCtx`, `resolveCtx`,
  `resolveChoiceCtx`, `Choice.pats`, `asView`, `expandCtxs`) are shared with `RV.C02.Model`.
-/
namespace RV.C02.Conc
open RV RV.C02

abbrev CMem := RV.C01.NMem

/-- `store.contexts()` -/
def storeContexts (m : CMem) : List Key := m.contexts (none, none, none)

/-- `Dataset.graphs()` / `Dataset.contexts()` consumed to the end: every graph of
    `store.contexts()`; `default |= c.identifier == DATASET_DEFAULT_GRAPH_ID`; `if not default:
    yield self.graph(DATASET_DEFAULT_GRAPH_ID)` (→ `store.add_graph`).
    `ConjunctiveGraph.contexts()` is `store.contexts()`. -/
def cgGraphs (cfg : Cfg) (m : CMem) : CMem × List Key :=
  if cfg.isDs && !decide (cfg.dflt ∈ storeContexts m) then
    (m.addGraph cfg.dflt, storeContexts m ++ [cfg.dflt])
  else (m, storeContexts m)

/-- state after `_graph(arg)`: for a `Graph` object of another store, `get_graph(c.identifier)`
    consumes `self.contexts()` (list comprehension), then `_graph.__iadd__(c)` -/
def graphEff (cfg : Cfg) (m : CMem) : GArg → CMem
  | .none => m
  | .ident _ => m
  | .view _ => m
  | .foreign k ts => (cgGraphs cfg m).1.iadd k ts

/-- state after `_spoc(tq)` -/
def spocEff (cfg : Cfg) (m : CMem) : TQ → CMem
  | .nil => m
  | .tri _ => m
  | .quad _ g => graphEff cfg m g

/-- `ConjunctiveGraph.add(triple_or_quad)` -/
def cgAdd (cfg : Cfg) (m : CMem) (t : Triple) (g : Option GArg) : CMem :=
  let tq : TQ := match g with
    | none => .tri (TPat.of t)
    | some g => .quad (TPat.of t) g
  let m1 := spocEff cfg m tq
  match spocKey cfg tq true with
  | some k => m1.add t k
  | none => m1

/-- `ConjunctiveGraph.addN(quads)` / `Dataset.__iadd__(quads)`: the generator handed to
    `Store.addN` runs `_graph(c)` for one quad, then `Store.addN` asserts `c is not None`, then
    `Memory.add` — quad by quad -/
def cgAddN (cfg : Cfg) (m : CMem) : List (Triple × GArg) → CMem × Bool
  | [] => (m, true)
  | (t, g) :: r =>
    let m1 := graphEff cfg m g
    match g.key with
    | none => (m1, false)
    | some k => cgAddN cfg (m1.add t k) r

/-- `Dataset.__iadd__(other)`: `self.addN((s, p, o, g) for s, p, o, g in other)` -/
def dsIadd (cfg : Cfg) (m : CMem) (qs : List (Triple × GArg)) : CMem × Bool := cgAddN cfg m qs

/-- `ConjunctiveGraph.remove(triple_or_quad)` -/
def cgRemove (cfg : Cfg) (m : CMem) (tq : TQ) : CMem :=
  (spocEff cfg m tq).remove tq.pat (spocKey cfg tq false)

/-- `ConjunctiveGraph.triples(tq, context)` -/
def cgTriples (cfg : Cfg) (m : CMem) (tq : TQ) (context : GArg) : CMem × List Triple :=
  let m1 := spocEff cfg m tq
  let g := pickCtx context (spocKey cfg tq false)
  let m2 := graphEff cfg m1 g
  (m2, (m2.triplesC tq.pat (resolveCtx cfg g.key)).map (·.1))

/-- `ConjunctiveGraph.triples_choices(choice, context)` → `Store.triples_choices` -/
def cgTriplesChoices (cfg : Cfg) (m : CMem) (ch : Choice) (context : GArg) : CMem × List Triple :=
  let m1 := graphEff cfg m context
  (m1, ch.pats.flatMap (fun p => (m1.triplesC p (resolveChoiceCtx cfg context.key)).map (·.1)))

/-- `ConjunctiveGraph.__contains__(tq)` -/
def cgContains (cfg : Cfg) (m : CMem) (tq : TQ) : CMem × Bool :=
  let m1 := spocEff cfg m tq
  let r := cgTriples cfg m1 (.tri tq.pat) (asView (spocKey cfg tq false))
  (r.1, !r.2.isEmpty)

/-- `ConjunctiveGraph.quads(tq)` / `Dataset.quads(tq)`: `for (s,p,o), cg in store.triples(…): for ctx in cg` -/
def cgQuads (cfg : Cfg) (m : CMem) (tq : TQ) : CMem × List Quad :=
  let m1 := spocEff cfg m tq
  (m1, expandCtxs (m1.triplesC tq.pat (spocKey cfg tq false)))

/-- `len(dataset)`: `self.store.__len__()` -/
def cgLen (m : CMem) : Nat := m.len none

/-- `graphs(triple)` / `contexts(triple)`: `store.contexts(triple)` (`spo` probe, then `__contexts`) -/
def cgGraphsOf (m : CMem) (t : Triple) : List Key := m.contexts (some t.1, some t.2.1, some t.2.2)

/-- `Dataset.graph(g)` / `add_graph(g)` for a given name -/
def dsGraph (cfg : Cfg) (m : CMem) (g : GArg) : CMem :=
  match g.key with
  | none => m
  | some k => (graphEff cfg m g).addGraph k

/-- `Dataset.graph(None)` / `graph()`: `identifier = BNode().skolemize()` — a name `k` that the harness owns
    (its freshness is a property of uuid-based blank-node ids, an assumption of the theorem about it) —
    then `_graph(identifier)` (not a `Graph`: `get_context`) and `store.add_graph`.
    (`self.bind("genid", …)` touches the namespace table only: C17's subject.) -/
def dsGraphFresh (cfg : Cfg) (m : CMem) (k : Key) : CMem := dsGraph cfg m (.ident k)

/-- `Dataset.remove_graph(g)` -/
def dsRemoveGraph (cfg : Cfg) (m : CMem) (k : Key) : CMem :=
  let m1 := m.removeGraph k
  if k = cfg.dflt then m1.addGraph cfg.dflt else m1

/-- `Dataset.remove_graph(None)`: `g = self.get_context(None)` is `Graph(store, identifier=None)`, a graph under a
    brand-new blank-node name `k` (harness-owned key, fresh by assumption as for `graph(None)`); then exactly the code of
    `remove_graph(k)`: `store.remove_graph(g)` (the `KeyError` of `__all_contexts.remove` swallowed), and — `g` being a
    `Graph` now, not `None`, and not the default graph — no re-registration.  (`None` does NOT denote the default graph.) -/
def dsRemoveGraphNone (cfg : Cfg) (m : CMem) (k : Key) : CMem := dsRemoveGraph cfg m k

/-- `ConjunctiveGraph.remove_context(g)` -/
def cgRemoveContext (m : CMem) (k : Key) : CMem := m.remove (none, none, none) (some k)

/-! ### independently constructed `Graph(store, name)` views -/

def vAdd (m : CMem) (k : Key) (t : Triple) : CMem := m.add t k
def vRemove (m : CMem) (k : Key) (p : TPat) : CMem := m.remove p (some k)
def vTriples (m : CMem) (k : Key) (p : TPat) : List Triple := (m.triplesC p (some k)).map (·.1)
def vContains (m : CMem) (k : Key) (p : TPat) : Bool := !(vTriples m k p).isEmpty
def vLen (m : CMem) (k : Key) : Nat := m.len (some k)
def vChoices (m : CMem) (k : Key) (ch : Choice) : List Triple := ch.pats.flatMap (fun p => vTriples m k p)

/-! ### histories -/

def step (cfg : Cfg) (m : CMem) : Op → CMem
  | .add t g => cgAdd cfg m t g
  | .addN qs => (cgAddN cfg m qs).1
  | .remove tq => cgRemove cfg m tq
  | .graph g => if cfg.isDs then dsGraph cfg m g else m
  | .removeGraph k => if cfg.isDs then dsRemoveGraph cfg m k else m
  | .removeContext k => cgRemoveContext m k
  | .vadd k t => vAdd m k t
  | .vremove k p => vRemove m k p
  | .triples tq c => (cgTriples cfg m tq c).1
  | .contains tq => (cgContains cfg m tq).1
  | .quads tq => (cgQuads cfg m tq).1
  | .graphs => (cgGraphs cfg m).1
  | .choices c => graphEff cfg m c

def run (cfg : Cfg) (m : CMem) (ops : List Op) : CMem := ops.foldl (step cfg) m

/-- `Dataset.__iter__` -/
def dsIter (cfg : Cfg) (m : CMem) : CMem × List Quad := cgQuads cfg m (.quad TPat.all .none)

def stepS (s : Cfg × CMem) : SOp → Cfg × CMem
  | .op o => (s.1, step s.1 s.2 o)
  | .setUnion b => ({ s.1 with du := b }, s.2)

def runS (s : Cfg × CMem) (ops : List SOp) : Cfg × CMem := ops.foldl stepS s

end RV.C02.Conc
