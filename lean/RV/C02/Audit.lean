import RV.C02.Props
import RV.C02.PropsConc
open RV.C02
#print axioms api_outputs_are_observations
#print axioms ds_refine_history
#print axioms isolation
#print axioms shared_triple_survives
#print axioms remove_all_graphs
#print axioms remove_graph_spec
#print axioms default_always_exists
#print axioms empty_or_unknown_is_empty
#print axioms union_view
#print axioms triples_choices
#print axioms path_pattern_graph
#print axioms registry_isolation
#print axioms union_of_registered_graphs
#print axioms default_union_switch
#print axioms prefix_empty_graph_falls_back
#print axioms prefix_graphs_of_triple_lists_default
#print axioms conc_refines_abstract
#print axioms conc_answers_agree
#print axioms conc_api_outputs_are_observations
#print axioms conc_refine_history
#print axioms conc_isolation
#print axioms conc_shared_triple_survives
#print axioms conc_union_view_and_empty
#print axioms conc_graph_lifecycle
#print axioms conc_remove_graph_none
