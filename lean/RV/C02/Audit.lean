import RV.C02.Props
open RV.C02
#print axioms add_names_a_graph
