import RV.C02.Model
import RV.C02.Conc
import RV.Base.Proto
/-
  C02 driver.  Terms and graph keys are naturals owned by the harness.
  One Memory store, two tops over it: `d` = Dataset (default graph key 99),
  `c` = ConjunctiveGraph (default graph key 98).

    reset duD duC                    -> ok       (empty store; default_union of d and of c)
    add T s p o G                    -> ok       G = `-` (plain triple) | N (None) | i<k> identifier
                                                   | v<k> same-store Graph object | f<k>:s.p.o;s.p.o foreign Graph
    addn T s,p,o,G s,p,o,G …         -> ok | AssertionError
    remove T s p o G                 -> ok       (positions: number or `*`)
    triples T s p o G C              -> sorted triples   (C = `context=` argument, `-`/N = None)
    contains T s p o G               -> True | False
    quads T s p o G | quads T nil    -> sorted quads
    graphs T | graphsof T s p o      -> sorted keys
    graph T G | rmgraph T k | rmctx T k -> ok
    len T                            -> n
    vadd k s p o | vremove k s p o   -> ok       (independent Graph(store, k) view)
    vtriples k s p o                 -> sorted triples
    vcontains k s p o                -> True | False
    vlen k                           -> n
    sctx                             -> sorted keys of store.contexts()
    choices T P L x y C              -> sorted triples   triples_choices: P ∈ {s,p,o} the list position,
                                                         L = a,b,… or `e` (empty list), x y the two other positions
    vchoices k P L x y               -> sorted triples   (through a view)
    path T K s o G C | pathin T K s o G -> the graph a property-path pattern is evaluated over: key or `*` (the union)
    vpath k K s o                    -> k
    setdu T b                        -> ok       (`top.default_union = b` at run time)
    iter d                           -> sorted quads   (`Dataset.__iter__`)
    iadd d s,p,o,G …                 -> ok | AssertionError   (`Dataset.__iadd__`: `ds += quads`)
    graphnew d n                     -> ok       (`ds.graph()` / `graph(None)`: the n-th fresh name, key 200+n)
    rmgraphnone d n                  -> ok       (`ds.remove_graph(None)`: a graph under a brand-new name, key 300+n)
    (graph argument `o<k>`: a ConjunctiveGraph object named k, of this or another store — returned as is by `_graph`)
    cerr                             -> ok | raised   (did any store operation of the concrete Memory model raise)

  Round g: the driver runs TWO models in lockstep on every line — the Dataset layer over C01's concrete
  `Memory` model (`RV.C02.Conc`, three indexes / context compression / `__contextTriples` / `__all_contexts`)
  and the same layer over the abstract set of quads (`RV.C02.Model`).  The answer printed is the one of the
  CONCRETE composition; if the abstract model answers differently (impossible by `conc_answers_agree`)
  the line gets the suffix ` !abstract=<answer>` and so differs from every implementation answer.
-/
open RV RV.C02 RV.Proto

structure St where
  mem : Mem
  cm : Conc.CMem
  duD : Bool
  duC : Bool

def St.cfg (s : St) (isDs : Bool) : Cfg :=
  if isDs then ⟨s.duD, 99, true⟩ else ⟨s.duC, 98, false⟩

def top? (w : String) : Option Bool :=
  if w = "d" then some true else if w = "c" then some false else none

def bool? (w : String) : Option Bool :=
  if w = "1" then some true else if w = "0" then some false else none

def triple3? (a b c : String) : Option Triple := do
  let a ← a.toNat?; let b ← b.toNat?; let c ← c.toNat?
  pure (a, b, c)

def pat? (a b c : String) : Option TPat := do
  let a ← optNat? a; let b ← optNat? b; let c ← optNat? c
  pure (a, b, c)

def dotted? (w : String) : Option Triple :=
  match w.splitOn "." with
  | [a, b, c] => triple3? a b c
  | _ => none

def triplesList? (w : String) : Option (List Triple) :=
  if w = "" then some [] else (w.splitOn ";").mapM dotted?

/-- `none` = not a graph argument; `some none` = `-` (argument absent) -/
def garg? (w : String) : Option (Option GArg) :=
  if w = "-" then some none
  else if w = "N" then some (some .none)
  else if w.startsWith "i" then (w.drop 1).toNat?.map (fun k => some (.ident k))
  else if w.startsWith "v" then (w.drop 1).toNat?.map (fun k => some (.view k))
  -- `o<k>`: a ConjunctiveGraph / Dataset OBJECT named k, of this or of another store: `_graph` returns it as is
  -- (`isinstance(c, (Dataset, ConjunctiveGraph))`), exactly like a same-store Graph object
  else if w.startsWith "o" then (w.drop 1).toNat?.map (fun k => some (.view k))
  else if w.startsWith "f" then
    match (w.drop 1).toString.splitOn ":" with
    | [k, ts] => do
      let k ← k.toNat?
      let ts ← triplesList? ts
      pure (some (.foreign k ts))
    | _ => none
  else none

def tq? (a b c g : String) : Option TQ := do
  let p ← pat? a b c
  let g ← garg? g
  pure (match g with
        | none => .tri p
        | some g => .quad p g)

def quadArg? (w : String) : Option (Triple × GArg) :=
  match w.splitOn "," with
  | [a, b, c, g] => do
    let t ← triple3? a b c
    let g ← garg? g
    match g with
    | none => none
    | some g => pure (t, g)
  | _ => none

def showTriples (ts : List Triple) : String :=
  " ".intercalate ((sortBy lexLt (ts.map (fun t => [t.1, t.2.1, t.2.2]))).map showNats)

def showQuads (qs : List Quad) : String :=
  " ".intercalate ((sortBy lexLt (qs.map (fun q => [q.1.1, q.1.2.1, q.1.2.2, q.2]))).map showNats)

def showKeys (ks : List Key) : String :=
  " ".intercalate ((sortBy lexLt (ks.map (fun k => [k]))).map showNats)

def showBool (b : Bool) : String := if b then "True" else "False"

def showOptKey (k : Option Key) : String :=
  match k with
  | none => "*"
  | some k => toString k

def natList? (w : String) : Option (List Nat) :=
  if w = "e" then some [] else (w.splitOn ",").mapM String.toNat?

def choice? (pos l x y : String) : Option Choice := do
  let l ← natList? l
  let x ← optNat? x
  let y ← optNat? y
  if pos = "s" then pure (.subj l x y)
  else if pos = "p" then pure (.pred x l y)
  else if pos = "o" then pure (.obj x y l)
  else none

def pathKind? (w : String) : Option Unit :=
  if w = "seq" || w = "alt" || w = "inv" || w = "star" then some () else none

/-- concrete answer, flagged when the abstract model disagrees -/
def both (c a : String) : String := if a = c then c else c ++ " !abstract=" ++ a

def freshKey (n : Nat) : Key := 200 + n

def step (s : St) : List String → St × String
  | ["reset", a, b] =>
    match bool? a, bool? b with
    | some a, some b => (⟨Mem.empty, RV.C01.NMem.init, a, b⟩, "ok")
    | _, _ => (s, "bad-op")
  | ["add", w, a, b, c, g] =>
    match top? w, triple3? a b c, garg? g with
    | some w, some t, some g =>
      ({ s with mem := cgAdd (s.cfg w) s.mem t g, cm := Conc.cgAdd (s.cfg w) s.cm t g }, "ok")
    | _, _, _ => (s, "bad-op")
  | "addn" :: w :: qs =>
    match top? w, qs.mapM quadArg? with
    | some w, some qs =>
      let r := cgAddN (s.cfg w) s.mem qs
      let rc := Conc.cgAddN (s.cfg w) s.cm qs
      ({ s with mem := r.1, cm := rc.1 },
        both (if rc.2 then "ok" else "AssertionError") (if r.2 then "ok" else "AssertionError"))
    | _, _ => (s, "bad-op")
  | "iadd" :: w :: qs =>
    match top? w, qs.mapM quadArg? with
    | some true, some qs =>
      let r := cgAddN (s.cfg true) s.mem qs
      let rc := Conc.dsIadd (s.cfg true) s.cm qs
      ({ s with mem := r.1, cm := rc.1 },
        both (if rc.2 then "ok" else "AssertionError") (if r.2 then "ok" else "AssertionError"))
    | _, _ => (s, "bad-op")
  | ["remove", w, a, b, c, g] =>
    match top? w, tq? a b c g with
    | some w, some tq =>
      ({ s with mem := cgRemove (s.cfg w) s.mem tq, cm := Conc.cgRemove (s.cfg w) s.cm tq }, "ok")
    | _, _ => (s, "bad-op")
  | ["triples", w, a, b, c, g, ctx] =>
    match top? w, tq? a b c g, garg? ctx with
    | some w, some tq, some ctx =>
      let r := cgTriples (s.cfg w) s.mem tq (ctx.getD .none)
      let rc := Conc.cgTriples (s.cfg w) s.cm tq (ctx.getD .none)
      ({ s with mem := r.1, cm := rc.1 }, both (showTriples rc.2) (showTriples r.2))
    | _, _, _ => (s, "bad-op")
  | ["contains", w, a, b, c, g] =>
    match top? w, tq? a b c g with
    | some w, some tq =>
      let r := cgContains (s.cfg w) s.mem tq
      let rc := Conc.cgContains (s.cfg w) s.cm tq
      ({ s with mem := r.1, cm := rc.1 }, both (showBool rc.2) (showBool r.2))
    | _, _ => (s, "bad-op")
  | ["quads", w, "nil"] =>
    match top? w with
    | some w =>
      let r := cgQuads (s.cfg w) s.mem .nil
      let rc := Conc.cgQuads (s.cfg w) s.cm .nil
      ({ s with mem := r.1, cm := rc.1 }, both (showQuads rc.2) (showQuads r.2))
    | none => (s, "bad-op")
  | ["quads", w, a, b, c, g] =>
    match top? w, tq? a b c g with
    | some w, some tq =>
      let r := cgQuads (s.cfg w) s.mem tq
      let rc := Conc.cgQuads (s.cfg w) s.cm tq
      ({ s with mem := r.1, cm := rc.1 }, both (showQuads rc.2) (showQuads r.2))
    | _, _ => (s, "bad-op")
  | ["graphs", w] =>
    match top? w with
    | some w =>
      let r := cgGraphs (s.cfg w) s.mem
      let rc := Conc.cgGraphs (s.cfg w) s.cm
      ({ s with mem := r.1, cm := rc.1 }, both (showKeys rc.2) (showKeys r.2))
    | none => (s, "bad-op")
  | ["graphsof", w, a, b, c] =>
    match top? w, triple3? a b c with
    | some _, some t => (s, both (showKeys (Conc.cgGraphsOf s.cm t)) (showKeys (cgGraphsOf s.mem t)))
    | _, _ => (s, "bad-op")
  | ["graph", w, g] =>
    match top? w, garg? g with
    | some true, some (some g) =>
      match g.key with
      | some _ =>
        ({ s with mem := dsGraph (s.cfg true) s.mem g, cm := Conc.dsGraph (s.cfg true) s.cm g }, "ok")
      | none => (s, "bad-op")
    | _, _ => (s, "bad-op")
  | ["graphnew", w, n] =>
    match top? w, n.toNat? with
    | some true, some n =>
      ({ s with mem := dsGraph (s.cfg true) s.mem (.ident (freshKey n)),
                cm := Conc.dsGraphFresh (s.cfg true) s.cm (freshKey n) }, "ok")
    | _, _ => (s, "bad-op")
  | ["rmgraphnone", w, n] =>
    match top? w, n.toNat? with
    | some true, some n =>
      ({ s with mem := dsRemoveGraph (s.cfg true) s.mem (300 + n),
                cm := Conc.dsRemoveGraphNone (s.cfg true) s.cm (300 + n) }, "ok")
    | _, _ => (s, "bad-op")
  | ["rmgraph", w, k] =>
    match top? w, k.toNat? with
    | some true, some k =>
      ({ s with mem := dsRemoveGraph (s.cfg true) s.mem k, cm := Conc.dsRemoveGraph (s.cfg true) s.cm k }, "ok")
    | _, _ => (s, "bad-op")
  | ["rmctx", w, k] =>
    match top? w, k.toNat? with
    | some _, some k => ({ s with mem := cgRemoveContext s.mem k, cm := Conc.cgRemoveContext s.cm k }, "ok")
    | _, _ => (s, "bad-op")
  | ["len", w] =>
    match top? w with
    | some _ => (s, both (toString (Conc.cgLen s.cm)) (toString (cgLen s.mem)))
    | none => (s, "bad-op")
  | ["vadd", k, a, b, c] =>
    match k.toNat?, triple3? a b c with
    | some k, some t => ({ s with mem := vAdd s.mem k t, cm := Conc.vAdd s.cm k t }, "ok")
    | _, _ => (s, "bad-op")
  | ["vremove", k, a, b, c] =>
    match k.toNat?, pat? a b c with
    | some k, some p => ({ s with mem := vRemove s.mem k p, cm := Conc.vRemove s.cm k p }, "ok")
    | _, _ => (s, "bad-op")
  | ["vtriples", k, a, b, c] =>
    match k.toNat?, pat? a b c with
    | some k, some p => (s, both (showTriples (Conc.vTriples s.cm k p)) (showTriples (vTriples s.mem k p)))
    | _, _ => (s, "bad-op")
  | ["vcontains", k, a, b, c] =>
    match k.toNat?, pat? a b c with
    | some k, some p => (s, both (showBool (Conc.vContains s.cm k p)) (showBool (vContains s.mem k p)))
    | _, _ => (s, "bad-op")
  | ["vlen", k] =>
    match k.toNat? with
    | some k => (s, both (toString (Conc.vLen s.cm k)) (toString (vLen s.mem k)))
    | none => (s, "bad-op")
  | ["sctx"] => (s, both (showKeys (Conc.storeContexts s.cm)) (showKeys s.mem.allc))
  | ["cerr"] => (s, if s.cm.cx.err then "raised" else "ok")
  | ["setdu", w, b] =>
    match top? w, bool? b with
    | some w, some b =>
      let r := stepS (s.cfg w, s.mem) (.setUnion b)
      let rc := Conc.stepS (s.cfg w, s.cm) (.setUnion b)
      (if w then { s with duD := rc.1.du, mem := r.2, cm := rc.2 } else { s with duC := rc.1.du, mem := r.2, cm := rc.2 }, "ok")
    | _, _ => (s, "bad-op")
  | ["iter", w] =>
    match top? w with
    | some true =>
      let r := dsIter (s.cfg true) s.mem
      let rc := Conc.dsIter (s.cfg true) s.cm
      ({ s with mem := r.1, cm := rc.1 }, both (showQuads rc.2) (showQuads r.2))
    | _ => (s, "bad-op")
  | ["choices", w, pos, l, x, y, ctx] =>
    match top? w, choice? pos l x y, garg? ctx with
    | some w, some ch, some ctx =>
      let r := cgTriplesChoices (s.cfg w) s.mem ch (ctx.getD .none)
      let rc := Conc.cgTriplesChoices (s.cfg w) s.cm ch (ctx.getD .none)
      ({ s with mem := r.1, cm := rc.1 }, both (showTriples rc.2) (showTriples r.2))
    | _, _, _ => (s, "bad-op")
  | ["vchoices", k, pos, l, x, y] =>
    match k.toNat?, choice? pos l x y with
    | some k, some ch => (s, both (showTriples (Conc.vChoices s.cm k ch)) (showTriples (vChoices s.mem k ch)))
    | _, _ => (s, "bad-op")
  | ["path", w, kind, a, c, g, ctx] =>
    match top? w, pathKind? kind, tq? a "*" c g, garg? ctx with
    | some w, some _, some tq, some ctx =>
      let r := cgTriples (s.cfg w) s.mem tq (ctx.getD .none)
      let rc := Conc.cgTriples (s.cfg w) s.cm tq (ctx.getD .none)
      ({ s with mem := r.1, cm := rc.1 }, showOptKey (cgPathGraph (s.cfg w) tq (ctx.getD .none)))
    | _, _, _, _ => (s, "bad-op")
  | ["pathin", w, kind, a, c, g] =>
    match top? w, pathKind? kind, tq? a "*" c g with
    | some w, some _, some tq =>
      let r := cgContains (s.cfg w) s.mem tq
      let rc := Conc.cgContains (s.cfg w) s.cm tq
      ({ s with mem := r.1, cm := rc.1 }, showOptKey (cgPathGraphContains (s.cfg w) tq))
    | _, _, _ => (s, "bad-op")
  | ["vpath", k, kind, a, c] =>
    match k.toNat?, pathKind? kind, pat? a "*" c with
    | some k, some _, some _ => (s, toString k)
    | _, _, _ => (s, "bad-op")
  | _ => (s, "bad-op")

def main : IO Unit := RV.Proto.run step (⟨Mem.empty, RV.C01.NMem.init, false, true⟩ : St)
