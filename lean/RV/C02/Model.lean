import RV.Base.SetList
/-
  C02 — model of the named-graph layer of rdflib:
  `rdflib/plugins/stores/memory.py` (Memory, context level) and
  `rdflib/graph.py` (ConjunctiveGraph / Dataset / Graph-view entry points).

  ## Store level (`Mem`)

  The Memory store is represented at the level this property needs (the index /
  context-compression internals are C01's subject): the set `qs` of asserted
  `(triple, graph-key)` pairs and the set `allc` of registered graphs
  (`__all_contexts`).  A graph key stands for `__ctx_to_str(graph)` = class name of the
  identifier + identifier (so `URIRef("g")` and `BNode("g")` are different keys).

  * `Memory.add(t, ctx)`            : `qs ∪= {(t,ctx)}`, `allc ∪= {ctx}`
  * `Memory.remove(pat, ctx|None)`  : drops the matching pairs of graph `ctx`, of every graph
                                      when `ctx is None`; `allc` unchanged (graph_aware store);
                                      an emptied graph stays registered
  * `Memory.triples(pat, ctx|None)` : the distinct matching triples of graph `ctx` / of the union,
                                      each with *all* the graphs it is asserted in (`__contexts`)
  * `Memory.contexts()` = `allc`, `Memory.contexts(t)` = graphs of `t`
  * `Memory.__len__(ctx|None)`      : number of triples in the graph / in the union
  * `add_graph`, `remove_graph`     : register / (remove all triples of the graph, unregister)

  `Memory.add(t, context=None)` (a triple asserted in the union only) is not modelled:
  after the repair C02-F2 no modelled caller passes `None`.

  ## Dataset / ConjunctiveGraph level (functions taking a `Cfg`)

  `_graph`, `_spoc`, `add`, `addN`, `remove`, `triples_choices`, `triples` (graph resolution for
  property-path predicates included; context resolution
  `context if context is not None else c`, default ↔ union mapping by `default_union`),
  `__contains__`, `quads`, `__len__`, `contexts`/`graphs`, `graph`/`add_graph`,
  `remove_graph`, `remove_context`, exactly in the order the code performs them,
  including the side effects of argument normalisation:
  a `Graph` *object of another store* passed where a graph is expected makes `_graph`
  call `get_graph` (for a Dataset this consumes `Dataset.contexts()`, which registers the
  default graph when the store does not list it) and then copy the object's triples into
  the graph of the same name (`__iadd__`): that graph's triples are merged.  A `Graph`
  object on the *same* store is returned as is (`elif c.store is self.store: return c`,
  repair "ConjunctiveGraph/Dataset no longer copy a graph of the same store into itself
  on reads"): no scan, no registration of the default graph, no copy.
-/
namespace RV.C02

abbrev Triple := Nat × Nat × Nat
abbrev Key := Nat
abbrev Quad := Triple × Key
abbrev TPat := Option Nat × Option Nat × Option Nat

def matchPos (p : Option Nat) (x : Nat) : Bool :=
  match p with
  | none => true
  | some y => x == y

def TPat.matches (p : TPat) (t : Triple) : Bool :=
  matchPos p.1 t.1 && matchPos p.2.1 t.2.1 && matchPos p.2.2 t.2.2

def TPat.all : TPat := (none, none, none)
def TPat.of (t : Triple) : TPat := (some t.1, some t.2.1, some t.2.2)

/-- store-level context restriction: `None` = every graph -/
def ctxOk (ctx : Option Key) (c : Key) : Bool :=
  match ctx with
  | none => true
  | some k => c == k

/-! ### Memory store -/

structure Mem where
  qs : List Quad
  allc : List Key

def Mem.empty : Mem := ⟨[], []⟩

/-- `Memory.add(triple, context)` (context a graph) -/
def Mem.add (m : Mem) (t : Triple) (c : Key) : Mem :=
  ⟨sinsert m.qs (t, c), sinsert m.allc c⟩

/-- the pairs surviving `remove(pat, ctx)` -/
def removeQ (pat : TPat) (ctx : Option Key) : List Quad → List Quad
  | [] => []
  | (t, c) :: r => if pat.matches t && ctxOk ctx c then removeQ pat ctx r else (t, c) :: removeQ pat ctx r

/-- `Memory.remove(pattern, context)` -/
def Mem.remove (m : Mem) (pat : TPat) (ctx : Option Key) : Mem :=
  ⟨removeQ pat ctx m.qs, m.allc⟩

/-- `__contexts(triple)`: every graph the triple is asserted in -/
def ctxsOf (t : Triple) : List Quad → List Key
  | [] => []
  | (t', c) :: r => if t' = t then c :: ctxsOf t r else ctxsOf t r

/-- the distinct triples matching `pat` in graph `ctx` (in any graph when `ctx = none`) -/
def selTriples (pat : TPat) (ctx : Option Key) : List Quad → List Triple
  | [] => []
  | (t, c) :: r =>
    if pat.matches t && ctxOk ctx c then
      (if t ∈ selTriples pat ctx r then selTriples pat ctx r else t :: selTriples pat ctx r)
    else selTriples pat ctx r

/-- `Memory.triples(pattern, context)`: `(triple, contexts-of-triple)` -/
def Mem.triples (m : Mem) (pat : TPat) (ctx : Option Key) : List (Triple × List Key) :=
  (selTriples pat ctx m.qs).map (fun t => (t, ctxsOf t m.qs))

/-- `Memory.__len__(context)` -/
def Mem.len (m : Mem) (ctx : Option Key) : Nat := (selTriples TPat.all ctx m.qs).length

def Mem.addGraph (m : Mem) (k : Key) : Mem := ⟨m.qs, sinsert m.allc k⟩

/-- `Memory.remove_graph(g)` -/
def Mem.removeGraph (m : Mem) (k : Key) : Mem :=
  ⟨(m.remove TPat.all (some k)).qs, sremove m.allc k⟩

/-- `Graph.__iadd__` into graph `k` (one `Memory.add` per triple) -/
def Mem.addAll (m : Mem) (k : Key) : List Triple → Mem
  | [] => m
  | t :: ts => (m.add t k).addAll k ts

/-! ### ConjunctiveGraph / Dataset layer -/

structure Cfg where
  du : Bool       -- default_union
  dflt : Key      -- key of the default graph (`DATASET_DEFAULT_GRAPH_ID` for a Dataset)
  isDs : Bool     -- Dataset (true) / ConjunctiveGraph (false)

/-- what the caller passes where the API expects a graph -/
inductive GArg
  | none                                    -- `None`
  | ident (k : Key)                         -- an identifier (URIRef / BNode / str)
  | view (k : Key)                          -- a `Graph` object on the same store, or a ConjunctiveGraph / Dataset object (any store): returned as is
  | foreign (k : Key) (ts : List Triple)    -- a `Graph` object of another store holding `ts`
  deriving Repr, DecidableEq

/-- the graph the argument names -/
def GArg.key : GArg → Option Key
  | .none => Option.none
  | .ident k => some k
  | .view k => some k
  | .foreign k _ => some k

/-- `Dataset.contexts()` run to its end (as `get_graph` does): the default graph is
    created in the store when the store does not list it.  `ConjunctiveGraph.contexts()`
    has no effect. -/
def touch (cfg : Cfg) (m : Mem) : Mem :=
  if cfg.isDs then m.addGraph cfg.dflt else m

/-- state after `_graph(arg)` -/
def graphEff (cfg : Cfg) (m : Mem) : GArg → Mem
  | .none => m
  | .ident _ => m
  | .view _ => m      -- `c.store is self.store`: returned as is (no `get_graph` scan, no copy)
  | .foreign k ts => (touch cfg m).addAll k ts

/-- a triple, a quad, or `None` as accepted by `_spoc` -/
inductive TQ
  | nil
  | tri (p : TPat)
  | quad (p : TPat) (g : GArg)
  deriving Repr

def TQ.pat : TQ → TPat
  | .nil => TPat.all
  | .tri p => p
  | .quad p _ => p

/-- the context component returned by `_spoc(tq, default)` (after C02-F2: a quad whose graph
    is `None` gets the default graph when `default=True`, like a plain triple) -/
def spocKey (cfg : Cfg) (tq : TQ) (dflt : Bool) : Option Key :=
  match tq with
  | .nil => if dflt then some cfg.dflt else none
  | .tri _ => if dflt then some cfg.dflt else none
  | .quad _ g =>
    match g.key with
    | none => if dflt then some cfg.dflt else none
    | some k => some k

/-- state after `_spoc(tq)` -/
def spocEff (cfg : Cfg) (m : Mem) : TQ → Mem
  | .nil => m
  | .tri _ => m
  | .quad _ g => graphEff cfg m g

/-- a context already resolved by `_spoc` is a `Graph` object on this store (or `None`) -/
def asView : Option Key → GArg
  | none => .none
  | some k => .view k

/-- `ConjunctiveGraph.add(triple_or_quad)`; the triple is fully bound -/
def cgAdd (cfg : Cfg) (m : Mem) (t : Triple) (g : Option GArg) : Mem :=
  let tq : TQ := match g with
    | none => .tri (TPat.of t)
    | some g => .quad (TPat.of t) g
  let m1 := spocEff cfg m tq
  match spocKey cfg tq true with
  | some k => m1.add t k
  | none => m1     -- not reachable (`spocKey_default_isSome`)

/-- `ConjunctiveGraph.addN(quads)`; `Store.addN` asserts `c is not None` and stops there.
    Result: state and whether the call returned normally. -/
def cgAddN (cfg : Cfg) (m : Mem) : List (Triple × GArg) → Mem × Bool
  | [] => (m, true)
  | (t, g) :: r =>
    let m1 := graphEff cfg m g
    match g.key with
    | none => (m1, false)
    | some k => cgAddN cfg (m1.add t k) r

/-- `ConjunctiveGraph.remove(triple_or_quad)` -/
def cgRemove (cfg : Cfg) (m : Mem) (tq : TQ) : Mem :=
  (spocEff cfg m tq).remove tq.pat (spocKey cfg tq false)

/-- the `default_union` mapping in `ConjunctiveGraph.triples` -/
def resolveCtx (cfg : Cfg) (c : Option Key) : Option Key :=
  if cfg.du then (if c = some cfg.dflt then none else c)
  else (match c with
        | none => some cfg.dflt
        | some k => some k)

/-- the graph argument handed to the second `_graph` call in `triples`:
    `context if context is not None else c` (C02-F1) -/
def pickCtx (context : GArg) (c : Option Key) : GArg :=
  match context with
  | .none => asView c
  | g => g

/-- `ConjunctiveGraph.triples(tq, context)` -/
def cgTriples (cfg : Cfg) (m : Mem) (tq : TQ) (context : GArg) : Mem × List Triple :=
  let m1 := spocEff cfg m tq
  let g := pickCtx context (spocKey cfg tq false)
  let m2 := graphEff cfg m1 g
  (m2, (m2.triples tq.pat (resolveCtx cfg g.key)).map (·.1))

/-- the graph a *property-path* pattern is evaluated over by `ConjunctiveGraph.triples`
    (`p.eval(context, s, o)`): the same resolution as for a plain pattern.  `none` = the
    dataset itself (`context = self`), only reached under `default_union`, i.e. the union. -/
def cgPathGraph (cfg : Cfg) (tq : TQ) (context : GArg) : Option Key :=
  resolveCtx cfg (pickCtx context (spocKey cfg tq false)).key

/-- the same for `(s, path, o, g) in ds` (`__contains__` → `triples((s,p,o), context=c)`) -/
def cgPathGraphContains (cfg : Cfg) (tq : TQ) : Option Key :=
  cgPathGraph cfg (.tri tq.pat) (asView (spocKey cfg tq false))

/-! ### `triples_choices` -/

/-- the argument of `triples_choices`: exactly one position is a list of terms -/
inductive Choice
  | subj (l : List Nat) (p o : Option Nat)
  | pred (s : Option Nat) (l : List Nat) (o : Option Nat)
  | obj (s p : Option Nat) (l : List Nat)
  deriving Repr

/-- `Store.triples_choices`: an empty list is falsy and stands for the wildcard -/
def choiceList (l : List Nat) : List (Option Nat) :=
  match l with
  | [] => [none]
  | _ => l.map some

/-- the plain patterns `Store.triples_choices` dispatches to `triples`, in order -/
def Choice.pats : Choice → List TPat
  | .subj l p o => (choiceList l).map (fun x => (x, p, o))
  | .pred s l o => (choiceList l).map (fun x => (s, x, o))
  | .obj s p l => (choiceList l).map (fun x => (s, p, x))

/-- context resolution of `ConjunctiveGraph.triples_choices`: `None` → the default graph unless
    `default_union`; a given graph is used as given (no default ↔ union mapping here) -/
def resolveChoiceCtx (cfg : Cfg) (c : Option Key) : Option Key :=
  match c with
  | none => if cfg.du then none else some cfg.dflt
  | some k => some k

/-- `ConjunctiveGraph.triples_choices(choice, context)` -/
def cgTriplesChoices (cfg : Cfg) (m : Mem) (ch : Choice) (context : GArg) : Mem × List Triple :=
  let m1 := graphEff cfg m context
  (m1, ch.pats.flatMap (fun p => (m1.triples p (resolveChoiceCtx cfg context.key)).map (·.1)))

/-- `ConjunctiveGraph.__contains__(tq)` -/
def cgContains (cfg : Cfg) (m : Mem) (tq : TQ) : Mem × Bool :=
  let m1 := spocEff cfg m tq
  let r := cgTriples cfg m1 (.tri tq.pat) (asView (spocKey cfg tq false))
  (r.1, !r.2.isEmpty)

def expandCtxs : List (Triple × List Key) → List Quad
  | [] => []
  | (t, cs) :: r => cs.map (fun c => (t, c)) ++ expandCtxs r

/-- `ConjunctiveGraph.quads(tq)` / `Dataset.quads(tq)` (graph reported by its key: in
    `Dataset.quads` the test `c.identifier == self.default_graph` compares an identifier with a
    Graph and is never true, so the default graph is reported by its identifier as well) -/
def cgQuads (cfg : Cfg) (m : Mem) (tq : TQ) : Mem × List Quad :=
  let m1 := spocEff cfg m tq
  (m1, expandCtxs (m1.triples tq.pat (spocKey cfg tq false)))

/-- `len(dataset)` -/
def cgLen (m : Mem) : Nat := m.len none

/-- `Dataset.graphs()` / `ConjunctiveGraph.contexts()` without a triple -/
def cgGraphs (cfg : Cfg) (m : Mem) : Mem × List Key :=
  ((touch cfg m), (touch cfg m).allc)

/-- `graphs(triple)` / `contexts(triple)` (after C02-F3: the default graph is not re-created
    nor listed when a specific triple is asked for) -/
def cgGraphsOf (m : Mem) (t : Triple) : List Key := ctxsOf t m.qs

/-- `Dataset.graph(g)` / `add_graph(g)` -/
def dsGraph (cfg : Cfg) (m : Mem) (g : GArg) : Mem :=
  match g.key with
  | none => m    -- `graph(None)` creates a fresh skolem-named graph: not modelled, driver refuses
  | some k => (graphEff cfg m g).addGraph k

/-- `Dataset.remove_graph(g)` -/
def dsRemoveGraph (cfg : Cfg) (m : Mem) (k : Key) : Mem :=
  let m1 := m.removeGraph k
  if k = cfg.dflt then m1.addGraph cfg.dflt else m1

/-- `ConjunctiveGraph.remove_context(g)` -/
def cgRemoveContext (m : Mem) (k : Key) : Mem := m.remove TPat.all (some k)

/-! ### independently constructed `Graph(store, name)` views -/

def vAdd (m : Mem) (k : Key) (t : Triple) : Mem := m.add t k
def vRemove (m : Mem) (k : Key) (p : TPat) : Mem := m.remove p (some k)
def vTriples (m : Mem) (k : Key) (p : TPat) : List Triple := (m.triples p (some k)).map (·.1)
def vContains (m : Mem) (k : Key) (p : TPat) : Bool := !(vTriples m k p).isEmpty
def vLen (m : Mem) (k : Key) : Nat := m.len (some k)
/-- `Graph.triples_choices` of a view -/
def vChoices (m : Mem) (k : Key) (ch : Choice) : List Triple := ch.pats.flatMap (fun p => vTriples m k p)

/-! ### operations of a history -/

inductive Op
  | add (t : Triple) (g : Option GArg)
  | addN (qs : List (Triple × GArg))
  | remove (tq : TQ)
  | graph (g : GArg)
  | removeGraph (k : Key)
  | removeContext (k : Key)
  | vadd (k : Key) (t : Triple)
  | vremove (k : Key) (p : TPat)
  -- reads (they can register the default graph / copy a foreign graph, see above)
  | triples (tq : TQ) (context : GArg)
  | contains (tq : TQ)
  | quads (tq : TQ)
  | graphs
  | choices (context : GArg)      -- `triples_choices(…, context)`: its effect depends on the graph argument only
  deriving Repr

def step (cfg : Cfg) (m : Mem) : Op → Mem
  | .add t g => cgAdd cfg m t g
  | .addN qs => (cgAddN cfg m qs).1
  | .remove tq => cgRemove cfg m tq
  | .graph g => if cfg.isDs then dsGraph cfg m g else m            -- ConjunctiveGraph has no `graph()`
  | .removeGraph k => if cfg.isDs then dsRemoveGraph cfg m k else m -- … and no `remove_graph()`
  | .removeContext k => cgRemoveContext m k
  | .vadd k t => vAdd m k t
  | .vremove k p => vRemove m k p
  | .triples tq c => (cgTriples cfg m tq c).1
  | .contains tq => (cgContains cfg m tq).1
  | .quads tq => (cgQuads cfg m tq).1
  | .graphs => (cgGraphs cfg m).1
  | .choices c => graphEff cfg m c

def run (cfg : Cfg) (m : Mem) (ops : List Op) : Mem := ops.foldl (step cfg) m

/-- `Dataset.__iter__`: `self.quads((None, None, None, None))` -/
def dsIter (cfg : Cfg) (m : Mem) : Mem × List Quad := cgQuads cfg m (.quad TPat.all .none)

/-! ### histories in which `default_union` is switched at run time

  `ds.default_union = b` is a plain attribute assignment: it changes how later reads without a
  graph (and reads naming the default graph) are resolved, and nothing in the store. -/

inductive SOp
  | op (o : Op)
  | setUnion (b : Bool)
  deriving Repr

def stepS (s : Cfg × Mem) : SOp → Cfg × Mem
  | .op o => (s.1, step s.1 s.2 o)
  | .setUnion b => ({ s.1 with du := b }, s.2)

def runS (s : Cfg × Mem) (ops : List SOp) : Cfg × Mem := ops.foldl stepS s

end RV.C02
