import RV.C02.Lemmas
/-
  C02 — "Dataset keeps named graphs isolated; the union view is the union of its graphs".

  Specification: a mathematical mapping  graph name → set of triples  plus the set of
  known (created, not removed) names.  Statements first (`def Statement_… : Prop`), then proofs.
-/
namespace RV.C02

/-! ### Specification -/

structure Spec where
  has : Key → Triple → Prop      -- graph name ↦ its set of triples
  known : Key → Prop             -- names that exist (for a Dataset the default graph always does)

def Spec.init (cfg : Cfg) : Spec :=
  ⟨fun _ _ => False, fun k => cfg.isDs = true ∧ k = cfg.dflt⟩

def Spec.add (σ : Spec) (t : Triple) (k : Key) : Spec :=
  ⟨fun k' t' => (k' = k ∧ t' = t) ∨ σ.has k' t', fun k' => k' = k ∨ σ.known k'⟩

/-- a Graph object of another store handed to the dataset is merged into the graph of its name -/
def Spec.merge (σ : Spec) (g : GArg) : Spec :=
  ⟨fun k t => σ.has k t ∨ (t, k) ∈ g.adds, fun k => σ.known k ∨ ∃ t, (t, k) ∈ g.adds⟩

/-- remove the matches from graph `k` (`ctx = some k`) or from every graph (`ctx = none`) -/
def Spec.remove (σ : Spec) (pat : TPat) (ctx : Option Key) : Spec :=
  ⟨fun k t => σ.has k t ∧ ¬(pat.matches t = true ∧ (ctx = none ∨ ctx = some k)), σ.known⟩

def Spec.create (σ : Spec) (k : Key) : Spec :=
  ⟨σ.has, fun k' => k' = k ∨ σ.known k'⟩

/-- `remove_graph`: empties and forgets only that graph; the default graph always exists -/
def Spec.removeGraph (cfg : Cfg) (σ : Spec) (k : Key) : Spec :=
  ⟨fun k' t => k' ≠ k ∧ σ.has k' t, fun k' => (k' ≠ k ∧ σ.known k') ∨ k' = cfg.dflt⟩

def Spec.addN (σ : Spec) : List (Triple × GArg) → Spec
  | [] => σ
  | (t, g) :: r =>
    match g.key with
    | none => σ.merge g
    | some k => ((σ.merge g).add t k).addN r

def Spec.step (cfg : Cfg) (σ : Spec) : Op → Spec
  | .add t g => (σ.merge (g.getD .none)).add t ((g.getD .none).key.getD cfg.dflt)
  | .addN qs => σ.addN qs
  | .remove tq => (σ.merge tq.garg).remove tq.pat tq.garg.key
  | .graph g =>
    if cfg.isDs then
      (match g.key with
       | none => σ
       | some k => (σ.merge g).create k)
    else σ
  | .removeGraph k => if cfg.isDs then σ.removeGraph cfg k else σ
  | .removeContext k => σ.remove TPat.all (some k)
  | .vadd k t => σ.add t k
  | .vremove k p => σ.remove p (some k)
  | .triples tq c => (σ.merge tq.garg).merge c
  | .contains tq => σ.merge tq.garg
  | .quads tq => σ.merge tq.garg
  | .graphs => σ
  | .choices c => σ.merge c

def Spec.run (cfg : Cfg) (σ : Spec) (ops : List Op) : Spec := ops.foldl (Spec.step cfg) σ

/-- what a read restricted to `e` (`none` = no graph given) must see -/
def Spec.sees (cfg : Cfg) (σ : Spec) (e : Option Key) (t : Triple) : Prop :=
  match e with
  | none => if cfg.du = true then ∃ k, σ.has k t else σ.has cfg.dflt t
  | some k => if cfg.du = true ∧ k = cfg.dflt then ∃ k', σ.has k' t else σ.has k t

/-- what `triples_choices` restricted to `e` must see: no graph given = the merged view under
    `default_union`, the default graph otherwise; a given graph = that graph -/
def Spec.seesChoice (cfg : Cfg) (σ : Spec) (e : Option Key) (t : Triple) : Prop :=
  match e with
  | none => if cfg.du = true then ∃ k, σ.has k t else σ.has cfg.dflt t
  | some k => σ.has k t

/-! ### Observations of the model (pure functions of the state) -/

/-- content of graph `k` as an independently constructed `Graph(store, k)` shows it -/
def content (m : Mem) (k : Key) (t : Triple) : Prop := t ∈ vTriples m k TPat.all

/-- `ds.triples(pat, context=e)` on state `m` -/
def obsTriples (cfg : Cfg) (m : Mem) (pat : TPat) (e : Option Key) : List Triple :=
  (m.triples pat (resolveCtx cfg e)).map (·.1)

/-- `(pat, e) in ds` on state `m` -/
def obsContains (cfg : Cfg) (m : Mem) (pat : TPat) (e : Option Key) : Bool :=
  !(obsTriples cfg m pat e).isEmpty

/-- `ds.quads((pat, e))` on state `m` -/
def obsQuads (m : Mem) (pat : TPat) (e : Option Key) : List Quad := expandCtxs (m.triples pat e)

/-- `ds.triples_choices(ch, context=e)` on state `m` -/
def obsChoices (cfg : Cfg) (m : Mem) (ch : Choice) (e : Option Key) : List Triple :=
  ch.pats.flatMap (fun p => (m.triples p (resolveChoiceCtx cfg e)).map (·.1))

/-- all observables the property names, on one state -/
structure Agree (cfg : Cfg) (m : Mem) (σ : Spec) : Prop where
  quads : ∀ q, q ∈ obsQuads m TPat.all none ↔ σ.has q.2 q.1
  quadsPat : ∀ pat e q, q ∈ obsQuads m pat e ↔
      σ.has q.2 q.1 ∧ pat.matches q.1 = true ∧ (∀ k, e = some k → σ.has k q.1)
  quadsNodup : ∀ pat e, (obsQuads m pat e).Nodup
  graphs : ∀ k, k ∈ (cgGraphs cfg m).2 ↔ σ.known k
  graphsNodup : (cgGraphs cfg m).2.Nodup
  graphsOf : ∀ t k, k ∈ cgGraphsOf m t ↔ σ.has k t
  view : ∀ k pat t, t ∈ vTriples m k pat ↔ σ.has k t ∧ pat.matches t = true
  viewNodup : ∀ k pat, (vTriples m k pat).Nodup
  viewContains : ∀ k pat, vContains m k pat = true ↔ ∃ t, σ.has k t ∧ pat.matches t = true
  triples : ∀ pat e t, t ∈ obsTriples cfg m pat e ↔ pat.matches t = true ∧ σ.sees cfg e t
  triplesNodup : ∀ pat e, (obsTriples cfg m pat e).Nodup
  contains : ∀ pat e, obsContains cfg m pat e = true ↔ ∃ t, pat.matches t = true ∧ σ.sees cfg e t
  choices : ∀ ch e t, t ∈ obsChoices cfg m ch e ↔
      (∃ p ∈ ch.pats, p.matches t = true) ∧ σ.seesChoice cfg e t
  viewChoices : ∀ k ch t, t ∈ vChoices m k ch ↔ (∃ p ∈ ch.pats, p.matches t = true) ∧ σ.has k t

/-! ### Statements -/

/-- The answers of the reading API calls are the pure observations of the state they leave. -/
def Statement_api_outputs_are_observations : Prop :=
  ∀ (cfg : Cfg) (m : Mem) (tq : TQ) (c : GArg),
    (cgTriples cfg m tq c).2 = obsTriples cfg (step cfg m (.triples tq c)) tq.pat (effKey tq c) ∧
    (cgContains cfg m tq).2 = obsContains cfg (step cfg m (.contains tq)) tq.pat tq.garg.key ∧
    (cgQuads cfg m tq).2 = obsQuads (step cfg m (.quads tq)) tq.pat tq.garg.key

/-- ⊢ For every history (adds, addN, removes, remove-by-pattern, graph creation / removal,
    through the dataset and through independent views, reads interleaved anywhere), every
    observable of the model is the one of the mapping  name → triple set. -/
def Statement_ds_refine_history : Prop :=
  ∀ (cfg : Cfg) (ops : List Op),
    Agree cfg (run cfg Mem.empty ops) (Spec.run cfg (Spec.init cfg) ops)

/-- the graphs an operation may change (`none` = every graph) -/
def Op.targets (cfg : Cfg) : Op → Option (List Key)
  | .add _ g => some ((g.getD .none).key.getD cfg.dflt :: (g.getD .none).adds.map (·.2))
  | .addN qs => some (qs.filterMap (·.2.key))
  | .remove tq =>
    match tq.garg.key with
    | none => none
    | some k => some [k]
  | .graph g => some (g.adds.map (·.2))
  | .removeGraph k => some [k]
  | .removeContext k => some [k]
  | .vadd k _ => some [k]
  | .vremove k _ => some [k]
  | .triples tq c => some (tq.garg.adds.map (·.2) ++ c.adds.map (·.2))
  | .contains tq => some (tq.garg.adds.map (·.2))
  | .quads tq => some (tq.garg.adds.map (·.2))
  | .graphs => some []
  | .choices c => some (c.adds.map (·.2))

/-- Operations on graph `g` leave the content of every other graph unchanged
    (in particular reads with identifiers / same-store views change no graph at all). -/
def Statement_isolation : Prop :=
  ∀ (cfg : Cfg) (m : Mem) (op : Op) (ks : List Key), op.targets cfg = some ks →
    ∀ h, h ∉ ks → ∀ t, content (step cfg m op) h t ↔ content m h t

/-- A triple shared by two graphs survives its removal from one of them. -/
def Statement_shared_triple_survives : Prop :=
  ∀ (cfg : Cfg) (m : Mem) (t : Triple) (g h : Key) (p : TPat), g ≠ h → content m h t →
    content (step cfg m (.remove (.quad p (.ident g)))) h t ∧
    content (step cfg m (.vremove g p)) h t

/-- Removing with no graph given removes the matches from every graph and nothing else. -/
def Statement_remove_all_graphs : Prop :=
  ∀ (cfg : Cfg) (m : Mem) (tq : TQ), tq.garg.key = none →
    ∀ h t, content (step cfg m (.remove tq)) h t ↔ (content m h t ∧ ¬ tq.pat.matches t = true)

/-- `remove_graph(k)`: `k` becomes empty and (unless it is the default graph) is no longer
    listed; every other graph keeps its content and its listing. -/
def Statement_remove_graph_spec : Prop :=
  ∀ (cfg : Cfg) (m : Mem) (k : Key), cfg.isDs = true →
    (∀ t, ¬ content (step cfg m (.removeGraph k)) k t) ∧
    (∀ h, h ≠ k → ∀ t, content (step cfg m (.removeGraph k)) h t ↔ content m h t) ∧
    (k ≠ cfg.dflt → k ∉ (cgGraphs cfg (step cfg m (.removeGraph k))).2) ∧
    (∀ h, h ≠ k → (h ∈ (cgGraphs cfg (step cfg m (.removeGraph k))).2 ↔ h ∈ (cgGraphs cfg m).2))

/-- The default graph of a Dataset is listed by `graphs()` in every state. -/
def Statement_default_always_exists : Prop :=
  ∀ (cfg : Cfg) (m : Mem), cfg.isDs = true → cfg.dflt ∈ (cgGraphs cfg m).2

/-- ⊢ A read restricted to a graph that is empty or unknown returns nothing (both
    `default_union` values; under `default_union` the name of the default graph denotes the
    merged view, which is `union_view`). -/
def Statement_empty_or_unknown_is_empty : Prop :=
  ∀ (cfg : Cfg) (m : Mem) (tq : TQ) (c : GArg) (k : Key),
    ¬(cfg.du = true ∧ k = cfg.dflt) →
    (effKey tq c = some k → (∀ t, ¬ content (cgTriples cfg m tq c).1 k t) →
        (cgTriples cfg m tq c).2 = []) ∧
    (tq.garg.key = some k → (∀ t, ¬ content (cgContains cfg m tq).1 k t) →
        (cgContains cfg m tq).2 = false) ∧
    (tq.garg.key = some k → (∀ t, ¬ content (cgQuads cfg m tq).1 k t) →
        (cgQuads cfg m tq).2 = [])

/-- A read with no graph given: the union of all graphs under `default_union` (each triple once),
    the default graph otherwise; naming the default graph under `default_union` is the same. -/
def Statement_union_view : Prop :=
  ∀ (cfg : Cfg) (m : Mem) (pat : TPat),
    (∀ t, t ∈ obsTriples cfg m pat none ↔
        pat.matches t = true ∧ (if cfg.du = true then ∃ k, content m k t else content m cfg.dflt t)) ∧
    (obsTriples cfg m pat none).Nodup ∧
    (cfg.du = true → obsTriples cfg m pat (some cfg.dflt) = obsTriples cfg m pat none)

/-- `triples_choices` is a finite union of `triples` reads over one resolved graph; restricted to
    an empty or unknown graph it returns nothing (both `default_union` values, the default graph
    included: this entry point has no default ↔ union mapping); with no graph given it reads the
    merged view under `default_union` and the default graph otherwise; and whenever the graph
    is not the default graph under `default_union` it is literally the union of the `triples`
    answers for the dispatched patterns. -/
def Statement_triples_choices : Prop :=
  ∀ (cfg : Cfg) (m : Mem) (ch : Choice) (c : GArg),
    (cgTriplesChoices cfg m ch c).2 = obsChoices cfg (step cfg m (.choices c)) ch c.key ∧
    (∀ e t, t ∈ obsChoices cfg m ch e ↔
        ∃ p ∈ ch.pats, t ∈ (m.triples p (resolveChoiceCtx cfg e)).map (·.1)) ∧
    (∀ k, c.key = some k → (∀ t, ¬ content (cgTriplesChoices cfg m ch c).1 k t) →
        (cgTriplesChoices cfg m ch c).2 = []) ∧
    (∀ t, t ∈ obsChoices cfg m ch none ↔
        (∃ p ∈ ch.pats, p.matches t = true) ∧
          (if cfg.du = true then ∃ k, content m k t else content m cfg.dflt t)) ∧
    (∀ k t, t ∈ obsChoices cfg m ch (some k) ↔ (∃ p ∈ ch.pats, p.matches t = true) ∧ content m k t) ∧
    (∀ e, (∀ k, e = some k → ¬(cfg.du = true ∧ k = cfg.dflt)) →
        obsChoices cfg m ch e = ch.pats.flatMap (fun p => obsTriples cfg m p e))

/-- A pattern whose predicate is a property path is evaluated over exactly the graph a plain
    pattern with the same graph arguments is read from (4th element of the quad, `context=`
    keyword — which wins — or none), for `triples` and for `in`. -/
def Statement_path_pattern_graph : Prop :=
  ∀ (cfg : Cfg) (m : Mem) (tq : TQ) (c : GArg),
    cgPathGraph cfg tq c = resolveCtx cfg (effKey tq c) ∧
    (cgTriples cfg m tq c).2 = ((cgTriples cfg m tq c).1.triples tq.pat (cgPathGraph cfg tq c)).map (·.1) ∧
    cgPathGraphContains cfg tq = resolveCtx cfg tq.garg.key ∧
    (cgContains cfg m tq).2 =
      !(((cgContains cfg m tq).1.triples tq.pat (cgPathGraphContains cfg tq)).map (·.1)).isEmpty

/-- the graphs whose *registry entry* (being listed by `graphs()` / `contexts()`) an operation
    may change -/
def Op.regTargets (cfg : Cfg) : Op → List Key
  | .add _ g => (g.getD .none).key.getD cfg.dflt :: (g.getD .none).adds.map (·.2)
  | .addN qs => qs.filterMap (·.2.key)
  | .remove tq => tq.garg.adds.map (·.2)
  | .graph g => g.key.toList ++ g.adds.map (·.2)
  | .removeGraph k => [k]
  | .removeContext _ => []
  | .vadd k _ => [k]
  | .vremove _ _ => []
  | .triples tq c => tq.garg.adds.map (·.2) ++ c.adds.map (·.2)
  | .contains tq => tq.garg.adds.map (·.2)
  | .quads tq => tq.garg.adds.map (·.2)
  | .graphs => []
  | .choices c => c.adds.map (·.2)

/-- ⊢ Registry isolation.  Step: an operation addressed to graph `g` changes the registry entry
    (listing by `graphs()`, and registration in the store apart from the lazily re-created default
    graph) of no other graph — removals never unregister, `remove_graph` unregisters only its graph.
    History: a graph that no operation of a history addresses keeps its triple set and its
    listing over the whole history. -/
def Statement_registry_isolation : Prop :=
  (∀ (cfg : Cfg) (m : Mem) (op : Op) (h : Key), h ∉ op.regTargets cfg →
      ((h ∈ (cgGraphs cfg (step cfg m op)).2 ↔ h ∈ (cgGraphs cfg m).2) ∧
       (h ≠ cfg.dflt → (h ∈ (step cfg m op).allc ↔ h ∈ m.allc)))) ∧
  (∀ (cfg : Cfg) (m : Mem) (ops : List Op) (h : Key),
      (∀ op ∈ ops, ∃ ks, op.targets cfg = some ks ∧ h ∉ ks) → (∀ op ∈ ops, h ∉ op.regTargets cfg) →
      ((∀ t, content (run cfg m ops) h t ↔ content m h t) ∧
       (h ∈ (cgGraphs cfg (run cfg m ops)).2 ↔ h ∈ (cgGraphs cfg m).2)))

/-- ⊢ After every history (switches of `default_union` included) the merged view is the union of
    the *listed* graphs: a read without a graph under `default_union` yields exactly the triples
    of the graphs `graphs()` lists (the default graph's otherwise); every quad of `quads()` /
    `__iter__` names a listed graph; `len()` is the number of distinct triples of the merged view
    whatever `default_union` is. -/
def Statement_union_of_registered_graphs : Prop :=
  ∀ (cfg : Cfg) (sops : List SOp),
    let s := runS (cfg, Mem.empty) sops
    (∀ pat t, t ∈ obsTriples s.1 s.2 pat none ↔
        pat.matches t = true ∧
          (if s.1.du = true then ∃ k, k ∈ (cgGraphs s.1 s.2).2 ∧ content s.2 k t else content s.2 s.1.dflt t)) ∧
    (∀ q, q ∈ obsQuads s.2 TPat.all none → q.2 ∈ (cgGraphs s.1 s.2).2) ∧
    (dsIter s.1 s.2).2 = obsQuads s.2 TPat.all none ∧
    cgLen s.2 = (obsTriples { s.1 with du := true } s.2 TPat.all none).length ∧
    (∀ k, vLen s.2 k = (vTriples s.2 k TPat.all).length)

def Spec.stepS (cfg : Cfg) (σ : Spec) : SOp → Spec
  | .op o => σ.step cfg o
  | .setUnion _ => σ

def Spec.runS (cfg : Cfg) (σ : Spec) (ops : List SOp) : Spec := ops.foldl (Spec.stepS cfg) σ

/-- ⊢ Switching `default_union` at run time changes nothing in the store (no graph's triple set,
    no listing, not `quads()`, not `len()`), and after any history with switches anywhere every
    observable is the one the mapping prescribes under the *current* value of the switch: the
    specification ignores the switches altogether. -/
def Statement_default_union_switch : Prop :=
  (∀ (s : Cfg × Mem) (b : Bool), (stepS s (.setUnion b)).2 = s.2 ∧ (stepS s (.setUnion b)).1.du = b ∧
      (stepS s (.setUnion b)).1.dflt = s.1.dflt ∧ (stepS s (.setUnion b)).1.isDs = s.1.isDs) ∧
  (∀ (cfg : Cfg) (sops : List SOp),
      Agree (runS (cfg, Mem.empty) sops).1 (runS (cfg, Mem.empty) sops).2
        (Spec.runS cfg (Spec.init cfg) sops))

/-! ### Simulation -/

structure Sim (cfg : Cfg) (m : Mem) (σ : Spec) : Prop where
  has : ∀ t k, (t, k) ∈ m.qs ↔ σ.has k t
  known : ∀ k, σ.known k ↔ (k ∈ m.allc ∨ (cfg.isDs = true ∧ k = cfg.dflt))
  wf : WF m

theorem ctxOk_iff {ctx : Option Key} {k : Key} : ctxOk ctx k = true ↔ (ctx = none ∨ ctx = some k) := by
  cases ctx with
  | none => simp [ctxOk]
  | some c =>
    simp only [ctxOk, beq_iff_eq]
    constructor
    · intro e; exact Or.inr (by rw [e])
    · rintro (e | e)
      · cases e
      · injection e with e; exact e.symm

theorem content_iff {m : Mem} {k : Key} {t : Triple} : content m k t ↔ (t, k) ∈ m.qs := by
  unfold content vTriples
  rw [mem_triples_fst]
  constructor
  · rintro ⟨_, c, h1, h2⟩
    rw [ctxOk_some.mp h2] at h1; exact h1
  · intro h; exact ⟨matches_all _, k, h, ctxOk_some.mpr rfl⟩

theorem sim_init (cfg : Cfg) : Sim cfg Mem.empty (Spec.init cfg) :=
  ⟨fun _ _ => ⟨fun h => absurd h List.not_mem_nil, False.elim⟩,
   fun _ => ⟨Or.inr, fun h => h.elim (fun e => absurd e List.not_mem_nil) id⟩, WF.empty⟩

theorem merge_pickCtx (σ : Spec) (c : GArg) (x : Option Key) : σ.merge (pickCtx c x) = σ.merge c := by
  simp only [Spec.merge, pickCtx_adds]

theorem merge_asView (σ : Spec) (x : Option Key) : σ.merge (asView x) = σ := by
  simp [Spec.merge, asView_adds]

theorem sim_add {cfg : Cfg} {m : Mem} {σ : Spec} (h : Sim cfg m σ) (t : Triple) (k : Key) :
    Sim cfg (m.add t k) (σ.add t k) := by
  refine ⟨?_, ?_, h.wf.add t k⟩
  · intro t' k'
    simp only [Mem.add, mem_sinsert, Spec.add, Prod.mk.injEq, h.has]
    constructor
    · rintro (⟨e1, e2⟩ | e)
      · exact Or.inl ⟨e2, e1⟩
      · exact Or.inr e
    · rintro (⟨e1, e2⟩ | e)
      · exact Or.inl ⟨e2, e1⟩
      · exact Or.inr e
  · intro k'
    simp only [Mem.add, mem_sinsert, Spec.add, h.known, or_assoc]

theorem sim_merge {cfg : Cfg} {m : Mem} {σ : Spec} (h : Sim cfg m σ) (g : GArg) :
    Sim cfg (graphEff cfg m g) (σ.merge g) := by
  refine ⟨?_, ?_, h.wf.graphEff cfg g⟩
  · intro t k
    simp only [mem_graphEff_qs, Spec.merge, h.has]
  · intro k
    simp only [mem_graphEff_allc, Spec.merge, h.known]
    constructor
    · rintro ((e | e) | e)
      · exact Or.inl (Or.inl e)
      · exact Or.inr e
      · exact Or.inl (Or.inr (Or.inr e))
    · rintro ((e | ⟨_, e⟩ | e) | e)
      · exact Or.inl (Or.inl e)
      · exact Or.inl (Or.inr e)
      · exact Or.inr e
      · exact Or.inl (Or.inr e)

theorem sim_remove {cfg : Cfg} {m : Mem} {σ : Spec} (h : Sim cfg m σ) (pat : TPat) (ctx : Option Key) :
    Sim cfg (m.remove pat ctx) (σ.remove pat ctx) := by
  refine ⟨?_, h.known, h.wf.remove pat ctx⟩
  intro t k
  simp only [Mem.remove, mem_removeQ, Spec.remove, h.has, ctxOk_iff]

theorem sim_create {cfg : Cfg} {m : Mem} {σ : Spec} (h : Sim cfg m σ) (k : Key) :
    Sim cfg (m.addGraph k) (σ.create k) := by
  refine ⟨h.has, ?_, h.wf.addGraph k⟩
  intro k'
  simp only [Mem.addGraph, mem_sinsert, Spec.create, h.known, or_assoc]

theorem sim_touch {cfg : Cfg} {m : Mem} {σ : Spec} (h : Sim cfg m σ) : Sim cfg (touch cfg m) σ := by
  refine ⟨by rw [touch_qs]; exact h.has, ?_, h.wf.touch cfg⟩
  intro k
  rw [h.known, mem_touch_allc]
  constructor
  · rintro (e | e)
    · exact Or.inl (Or.inl e)
    · exact Or.inr e
  · rintro ((e | e) | e)
    · exact Or.inl e
    · exact Or.inr e
    · exact Or.inr e

theorem sim_removeGraph {cfg : Cfg} {m : Mem} {σ : Spec} (h : Sim cfg m σ) (hd : cfg.isDs = true)
    (k : Key) : Sim cfg (dsRemoveGraph cfg m k) (σ.removeGraph cfg k) := by
  have hq : ∀ t k', (t, k') ∈ (m.removeGraph k).qs ↔ (k' ≠ k ∧ σ.has k' t) := by
    intro t k'
    simp only [Mem.removeGraph, Mem.remove, mem_removeQ, h.has, matches_all, ctxOk_some, true_and]
    exact and_comm
  unfold dsRemoveGraph
  simp only
  split
  · next e =>
    refine ⟨hq, ?_, (h.wf.removeGraph k).addGraph _⟩
    intro k'
    simp only [Spec.removeGraph, Mem.addGraph, Mem.removeGraph, mem_sinsert, mem_sremove, h.known, hd,
      true_and, e]
    constructor
    · rintro (⟨e1, (e2 | e2)⟩ | e1)
      · exact Or.inl (Or.inr ⟨e1, e2⟩)
      · exact Or.inr e2
      · exact Or.inr e1
    · rintro ((e1 | ⟨e1, e2⟩) | e1)
      · exact Or.inr e1
      · exact Or.inl ⟨e1, Or.inl e2⟩
      · exact Or.inr e1
  · next e =>
    refine ⟨hq, ?_, h.wf.removeGraph k⟩
    intro k'
    simp only [Spec.removeGraph, Mem.removeGraph, mem_sremove, h.known, hd, true_and]
    constructor
    · rintro (⟨e1, (e2 | e2)⟩ | e1)
      · exact Or.inl ⟨e1, e2⟩
      · exact Or.inr e2
      · exact Or.inr e1
    · rintro (⟨e1, e2⟩ | e1)
      · exact Or.inl ⟨e1, Or.inl e2⟩
      · exact Or.inr e1

theorem sim_addN {cfg : Cfg} (qs : List (Triple × GArg)) :
    ∀ {m : Mem} {σ : Spec}, Sim cfg m σ → Sim cfg (cgAddN cfg m qs).1 (σ.addN qs) := by
  induction qs with
  | nil => intro m σ h; exact h
  | cons x r ih =>
    intro m σ h
    obtain ⟨t, g⟩ := x
    simp only [cgAddN, Spec.addN]
    cases hk : g.key with
    | none => exact sim_merge h g
    | some k => exact ih (sim_add (sim_merge h g) t k)

theorem sim_step {cfg : Cfg} {m : Mem} {σ : Spec} (h : Sim cfg m σ) (op : Op) :
    Sim cfg (step cfg m op) (σ.step cfg op) := by
  cases op with
  | add t g =>
    simp only [step, Spec.step, cgAdd]
    cases g with
    | none =>
      simp only [spocKey, spocEff, Option.getD, GArg.key]
      exact sim_add (sim_merge h .none) t _
    | some g =>
      simp only [spocEff, Option.getD]
      rw [spocKey_default]
      exact sim_add (sim_merge h g) t _
  | addN qs => exact sim_addN qs h
  | remove tq =>
    simp only [step, Spec.step, cgRemove]
    rw [spocEff_eq, spocKey_nodefault]
    exact sim_remove (sim_merge h _) _ _
  | graph g =>
    simp only [step, Spec.step, dsGraph]
    split
    · cases hk : g.key with
      | none => exact h
      | some k => exact sim_create (sim_merge h g) k
    · exact h
  | removeGraph k =>
    simp only [step, Spec.step]
    split
    · next hd => exact sim_removeGraph h hd k
    · exact h
  | removeContext k => exact sim_remove h _ _
  | vadd k t => exact sim_add h t k
  | vremove k p => exact sim_remove h p _
  | triples tq c =>
    have h1 := sim_merge (sim_merge h tq.garg) (pickCtx c (spocKey cfg tq false))
    rw [merge_pickCtx] at h1
    simp only [step, Spec.step, cgTriples, spocEff_eq]
    exact h1
  | contains tq =>
    have h1 := sim_merge (sim_merge h tq.garg)
      (pickCtx (asView (spocKey cfg tq false)) (spocKey cfg (.tri tq.pat) false))
    rw [merge_pickCtx, merge_asView] at h1
    simp only [step, Spec.step, cgContains, cgTriples, spocEff_eq]
    exact h1
  | quads tq =>
    simp only [step, Spec.step, cgQuads]
    rw [spocEff_eq]
    exact sim_merge h _
  | graphs => exact sim_touch h
  | choices c => exact sim_merge h c

theorem sim_run {cfg : Cfg} (ops : List Op) :
    ∀ {m : Mem} {σ : Spec}, Sim cfg m σ → Sim cfg (run cfg m ops) (σ.run cfg ops) := by
  induction ops with
  | nil => intro m σ h; exact h
  | cons op ops ih => intro m σ h; exact ih (sim_step h op)

/-! ### helpers for `triples_choices` -/

theorem resolveChoiceCtx_eq {cfg : Cfg} {e : Option Key}
    (h : ∀ k, e = some k → ¬(cfg.du = true ∧ k = cfg.dflt)) : resolveChoiceCtx cfg e = resolveCtx cfg e := by
  cases e with
  | none =>
    rw [resolveCtx_none]
    simp only [resolveChoiceCtx]
  | some k => rw [resolveCtx_some (h k rfl)]; rfl

theorem mem_obsChoices {cfg : Cfg} {m : Mem} {ch : Choice} {e : Option Key} {t : Triple} :
    t ∈ obsChoices cfg m ch e ↔
      (∃ p ∈ ch.pats, p.matches t = true) ∧ ∃ c, (t, c) ∈ m.qs ∧ ctxOk (resolveChoiceCtx cfg e) c = true := by
  unfold obsChoices
  simp only [List.mem_flatMap, mem_triples_fst]
  constructor
  · rintro ⟨p, hp, h1, h2⟩; exact ⟨⟨p, hp, h1⟩, h2⟩
  · rintro ⟨⟨p, hp, h1⟩, h2⟩; exact ⟨p, hp, h1, h2⟩

theorem exists_ctx_iff {m : Mem} {cfg : Cfg} {e : Option Key} {t : Triple} :
    (∃ c, (t, c) ∈ m.qs ∧ ctxOk (resolveChoiceCtx cfg e) c = true) ↔
      (match e with
       | none => if cfg.du = true then ∃ k, (t, k) ∈ m.qs else (t, cfg.dflt) ∈ m.qs
       | some k => (t, k) ∈ m.qs) := by
  cases e with
  | none =>
    by_cases hdu : cfg.du = true
    · simp only [resolveChoiceCtx, hdu, if_true, ctxOk_none, and_true]
    · simp only [resolveChoiceCtx, hdu, if_false, Bool.false_eq_true]
      constructor
      · rintro ⟨c, h1, h2⟩; rw [ctxOk_some.mp h2] at h1; exact h1
      · intro h1; exact ⟨_, h1, ctxOk_some.mpr rfl⟩
  | some k =>
    simp only [resolveChoiceCtx]
    constructor
    · rintro ⟨c, h1, h2⟩; rw [ctxOk_some.mp h2] at h1; exact h1
    · intro h1; exact ⟨_, h1, ctxOk_some.mpr rfl⟩

/-! ### Observables under the simulation -/

theorem notEmpty_iff {α : Type} (l : List α) : (!l.isEmpty) = true ↔ ∃ x, x ∈ l := by
  cases l with
  | nil => simp
  | cons a r => simp

theorem mem_obsTriples {cfg : Cfg} {m : Mem} {σ : Spec} (h : Sim cfg m σ) (pat : TPat)
    (e : Option Key) (t : Triple) :
    t ∈ obsTriples cfg m pat e ↔ pat.matches t = true ∧ σ.sees cfg e t := by
  unfold obsTriples
  rw [mem_triples_fst]
  refine and_congr_right (fun _ => ?_)
  cases e with
  | none =>
    by_cases hdu : cfg.du = true
    · simp only [resolveCtx, hdu, if_true, Spec.sees]
      simp only [reduceCtorEq, if_false, ctxOk_none, and_true, h.has]
    · simp only [resolveCtx, hdu, Spec.sees, if_false, Bool.false_eq_true]
      constructor
      · rintro ⟨c, h1, h2⟩
        rw [ctxOk_some.mp h2] at h1; exact (h.has _ _).mp h1
      · intro h1; exact ⟨_, (h.has _ _).mpr h1, ctxOk_some.mpr rfl⟩
  | some k =>
    by_cases hdu : cfg.du = true
    · by_cases hk : k = cfg.dflt
      · subst hk
        simp only [resolveCtx, hdu, if_true, Spec.sees, and_self, ctxOk_none, and_true, h.has]
      · have hk' : ¬ (some k = some cfg.dflt) := fun e => hk (by injection e)
        simp only [resolveCtx, hdu, if_true, hk', if_false, Spec.sees, hk, and_false]
        constructor
        · rintro ⟨c, h1, h2⟩
          rw [ctxOk_some.mp h2] at h1; exact (h.has _ _).mp h1
        · intro h1; exact ⟨_, (h.has _ _).mpr h1, ctxOk_some.mpr rfl⟩
    · simp only [resolveCtx, hdu, Spec.sees, if_false, Bool.false_eq_true, false_and]
      constructor
      · rintro ⟨c, h1, h2⟩
        rw [ctxOk_some.mp h2] at h1; exact (h.has _ _).mp h1
      · intro h1; exact ⟨_, (h.has _ _).mpr h1, ctxOk_some.mpr rfl⟩

theorem nodup_obsQuads {m : Mem} (h : WF m) (pat : TPat) (e : Option Key) : (obsQuads m pat e).Nodup := by
  unfold obsQuads
  apply nodup_expandCtxs
  · rw [triples_fst_eq]; exact nodup_selTriples _ _ _
  · intro x hx
    simp only [Mem.triples, List.mem_map] at hx
    obtain ⟨t, _, rfl⟩ := hx
    exact nodup_ctxsOf h.qs

theorem mem_obsQuads {cfg : Cfg} {m : Mem} {σ : Spec} (h : Sim cfg m σ) (pat : TPat) (e : Option Key)
    (q : Quad) : q ∈ obsQuads m pat e ↔
      σ.has q.2 q.1 ∧ pat.matches q.1 = true ∧ (∀ k, e = some k → σ.has k q.1) := by
  unfold obsQuads
  rw [mem_quads_of_triples]
  obtain ⟨t, k⟩ := q
  simp only [h.has]
  refine and_congr_right (fun hq => and_congr_right (fun _ => ?_))
  cases e with
  | none =>
    constructor
    · intro _ k' e; cases e
    · intro _; exact ⟨k, hq, rfl⟩
  | some k' =>
    constructor
    · rintro ⟨c, h1, h2⟩ k'' e
      injection e with e; subst e
      rw [ctxOk_some.mp h2] at h1; exact h1
    · intro h1; exact ⟨k', h1 k' rfl, ctxOk_some.mpr rfl⟩

theorem agree_of_sim {cfg : Cfg} {m : Mem} {σ : Spec} (h : Sim cfg m σ) : Agree cfg m σ where
  quads := by
    intro q
    rw [mem_obsQuads h]
    constructor
    · exact fun x => x.1
    · intro x; exact ⟨x, matches_all _, fun k e => by cases e⟩
  quadsPat := mem_obsQuads h
  quadsNodup := nodup_obsQuads h.wf
  graphs := by
    intro k
    simp only [cgGraphs, mem_touch_allc, h.known]
  graphsNodup := (h.wf.touch cfg).allc
  graphsOf := by
    intro t k
    simp only [cgGraphsOf, mem_ctxsOf, h.has]
  view := by
    intro k pat t
    unfold vTriples
    rw [mem_triples_fst]
    constructor
    · rintro ⟨h0, c, h1, h2⟩
      rw [ctxOk_some.mp h2] at h1; exact ⟨(h.has _ _).mp h1, h0⟩
    · rintro ⟨h1, h0⟩; exact ⟨h0, k, (h.has _ _).mpr h1, ctxOk_some.mpr rfl⟩
  viewNodup := by
    intro k pat
    unfold vTriples
    rw [triples_fst_eq]; exact nodup_selTriples _ _ _
  viewContains := by
    intro k pat
    unfold vContains
    rw [notEmpty_iff]
    refine exists_congr (fun t => ?_)
    unfold vTriples
    rw [mem_triples_fst]
    constructor
    · rintro ⟨h0, c, h1, h2⟩
      rw [ctxOk_some.mp h2] at h1; exact ⟨(h.has _ _).mp h1, h0⟩
    · rintro ⟨h1, h0⟩; exact ⟨h0, k, (h.has _ _).mpr h1, ctxOk_some.mpr rfl⟩
  triples := mem_obsTriples h
  triplesNodup := by
    intro pat e
    unfold obsTriples
    rw [triples_fst_eq]; exact nodup_selTriples _ _ _
  contains := by
    intro pat e
    unfold obsContains
    rw [notEmpty_iff]
    exact exists_congr (fun t => mem_obsTriples h pat e t)
  choices := by
    intro ch e t
    rw [mem_obsChoices, exists_ctx_iff]
    refine and_congr_right (fun _ => ?_)
    cases e with
    | none =>
      by_cases hdu : cfg.du = true <;> simp only [Spec.seesChoice, hdu, if_true, if_false, h.has, Bool.false_eq_true]
    | some k => simp only [Spec.seesChoice, h.has]
  viewChoices := by
    intro k ch t
    unfold vChoices vTriples
    simp only [List.mem_flatMap, mem_triples_fst]
    constructor
    · rintro ⟨p, hp, h1, c, h2, h3⟩
      rw [ctxOk_some.mp h3] at h2
      exact ⟨⟨p, hp, h1⟩, (h.has _ _).mp h2⟩
    · rintro ⟨⟨p, hp, h1⟩, h2⟩
      exact ⟨p, hp, h1, k, (h.has _ _).mpr h2, ctxOk_some.mpr rfl⟩

/-! ### Proofs of the statements -/

theorem cgTriples_snd (cfg : Cfg) (m : Mem) (tq : TQ) (c : GArg) :
    (cgTriples cfg m tq c).2 = obsTriples cfg (cgTriples cfg m tq c).1 tq.pat (effKey tq c) := by
  simp only [cgTriples, obsTriples, pickCtx_key, spocKey_nodefault, effKey]

theorem effKey_tri_asView (p : TPat) (K : Option Key) : effKey (.tri p) (asView K) = K := by
  cases K <;> rfl

theorem cgContains_snd (cfg : Cfg) (m : Mem) (tq : TQ) :
    (cgContains cfg m tq).2 = obsContains cfg (cgContains cfg m tq).1 tq.pat tq.garg.key := by
  show (!((cgTriples cfg (spocEff cfg m tq) (.tri tq.pat) (asView (spocKey cfg tq false))).2).isEmpty) =
    obsContains cfg (cgTriples cfg (spocEff cfg m tq) (.tri tq.pat) (asView (spocKey cfg tq false))).1
      tq.pat tq.garg.key
  rw [cgTriples_snd, effKey_tri_asView, spocKey_nodefault]
  rfl

theorem cgQuads_snd (cfg : Cfg) (m : Mem) (tq : TQ) :
    (cgQuads cfg m tq).2 = obsQuads (cgQuads cfg m tq).1 tq.pat tq.garg.key := by
  simp only [cgQuads, obsQuads, spocKey_nodefault]

theorem api_outputs_are_observations : Statement_api_outputs_are_observations :=
  fun cfg m tq c => ⟨cgTriples_snd cfg m tq c, cgContains_snd cfg m tq, cgQuads_snd cfg m tq⟩

theorem ds_refine_history : Statement_ds_refine_history :=
  fun cfg ops => agree_of_sim (sim_run ops (sim_init cfg))

theorem not_mem_adds {g : GArg} {t : Triple} {h : Key} (hh : h ∉ g.adds.map (·.2)) : (t, h) ∉ g.adds :=
  fun e => hh (List.mem_map.mpr ⟨(t, h), e, rfl⟩)

theorem isolation : Statement_isolation := by
  intro cfg m op ks hks h hh t
  rw [content_iff, content_iff]
  cases op with
  | add t0 g =>
    simp only [Op.targets, Option.some.injEq] at hks
    subst hks
    simp only [List.mem_cons, not_or] at hh
    have e : step cfg m (.add t0 g) = (graphEff cfg m (g.getD .none)).add t0 ((g.getD .none).key.getD cfg.dflt) := by
      cases g with
      | none => rfl
      | some g =>
        simp only [step, cgAdd, spocKey_default, TQ.garg, Option.getD, spocEff]
    rw [e]
    simp only [Mem.add, mem_sinsert, mem_graphEff_qs, Prod.mk.injEq]
    constructor
    · rintro (⟨_, e1⟩ | e1 | e1)
      · exact absurd e1 hh.1
      · exact e1
      · exact absurd e1 (not_mem_adds hh.2)
    · intro e1; exact Or.inr (Or.inl e1)
  | addN qs =>
    simp only [Op.targets, Option.some.injEq] at hks
    subst hks
    exact cgAddN_qs_other qs m t h hh
  | remove tq =>
    simp only [Op.targets] at hks
    cases hk : tq.garg.key with
    | none => rw [hk] at hks; cases hks
    | some k =>
      rw [hk] at hks
      simp only [Option.some.injEq] at hks
      subst hks
      simp only [List.mem_singleton] at hh
      simp only [step, cgRemove, spocEff_eq, spocKey_nodefault, Mem.remove, mem_removeQ, mem_graphEff_qs, hk,
        ctxOk_some, hh, and_false, not_false_eq_true, and_true]
      constructor
      · rintro (e1 | e1)
        · exact e1
        · have := adds_key e1
          rw [hk] at this; injection this with this
          exact absurd this.symm hh
      · exact Or.inl
  | graph g =>
    simp only [Op.targets, Option.some.injEq] at hks
    subst hks
    simp only [step, dsGraph]
    split
    · cases hk : g.key with
      | none => rfl
      | some k =>
        simp only [Mem.addGraph, mem_graphEff_qs]
        constructor
        · rintro (e1 | e1)
          · exact e1
          · exact absurd e1 (not_mem_adds hh)
        · exact Or.inl
    · rfl
  | removeGraph k =>
    simp only [Op.targets, Option.some.injEq] at hks
    subst hks
    simp only [List.mem_singleton] at hh
    simp only [step, dsRemoveGraph]
    split
    · split <;>
        simp only [Mem.addGraph, Mem.removeGraph, Mem.remove, mem_removeQ, ctxOk_some, hh, and_false,
          not_false_eq_true, and_true]
    · rfl
  | removeContext k =>
    simp only [Op.targets, Option.some.injEq] at hks
    subst hks
    simp only [List.mem_singleton] at hh
    simp only [step, cgRemoveContext, Mem.remove, mem_removeQ, ctxOk_some, hh, and_false,
      not_false_eq_true, and_true]
  | vadd k t0 =>
    simp only [Op.targets, Option.some.injEq] at hks
    subst hks
    simp only [List.mem_singleton] at hh
    simp only [step, vAdd, Mem.add, mem_sinsert, Prod.mk.injEq, hh, and_false, false_or]
  | vremove k p =>
    simp only [Op.targets, Option.some.injEq] at hks
    subst hks
    simp only [List.mem_singleton] at hh
    simp only [step, vRemove, Mem.remove, mem_removeQ, ctxOk_some, hh, and_false,
      not_false_eq_true, and_true]
  | triples tq c =>
    simp only [Op.targets, Option.some.injEq] at hks
    subst hks
    simp only [List.mem_append, not_or] at hh
    simp only [step, cgTriples, spocEff_eq, mem_graphEff_qs, pickCtx_adds]
    constructor
    · rintro ((e1 | e1) | e1)
      · exact e1
      · exact absurd e1 (not_mem_adds hh.1)
      · exact absurd e1 (not_mem_adds hh.2)
    · intro e1; exact Or.inl (Or.inl e1)
  | contains tq =>
    simp only [Op.targets, Option.some.injEq] at hks
    subst hks
    have e : (step cfg m (.contains tq)).qs =
        (graphEff cfg (graphEff cfg m tq.garg) (pickCtx (asView (spocKey cfg tq false)) none)).qs := by
      simp only [step, cgContains, cgTriples, spocEff_eq]
      rfl
    rw [e]
    simp only [mem_graphEff_qs, pickCtx_adds, asView_adds, List.not_mem_nil, or_false]
    constructor
    · rintro (e1 | e1)
      · exact e1
      · exact absurd e1 (not_mem_adds hh)
    · exact Or.inl
  | quads tq =>
    simp only [Op.targets, Option.some.injEq] at hks
    subst hks
    simp only [step, cgQuads, spocEff_eq, mem_graphEff_qs]
    constructor
    · rintro (e1 | e1)
      · exact e1
      · exact absurd e1 (not_mem_adds hh)
    · exact Or.inl
  | graphs =>
    simp only [step, cgGraphs, touch_qs]
  | choices c =>
    simp only [Op.targets, Option.some.injEq] at hks
    subst hks
    simp only [step, mem_graphEff_qs]
    constructor
    · rintro (e1 | e1)
      · exact e1
      · exact absurd e1 (not_mem_adds hh)
    · exact Or.inl

theorem shared_triple_survives : Statement_shared_triple_survives := by
  intro cfg m t g h p hgh hc
  constructor
  · exact (isolation cfg m (.remove (.quad p (.ident g))) [g] rfl h
      (by simp only [List.mem_singleton]; exact fun e => hgh e.symm) t).mpr hc
  · exact (isolation cfg m (.vremove g p) [g] rfl h
      (by simp only [List.mem_singleton]; exact fun e => hgh e.symm) t).mpr hc

theorem remove_all_graphs : Statement_remove_all_graphs := by
  intro cfg m tq hk h t
  rw [content_iff, content_iff]
  simp only [step, cgRemove, spocEff_eq, spocKey_nodefault, hk, Mem.remove, mem_removeQ, mem_graphEff_qs,
    adds_nil_of_key_none hk, List.not_mem_nil, or_false, ctxOk_none, and_true]

theorem default_always_exists : Statement_default_always_exists := by
  intro cfg m hd
  simp only [cgGraphs, mem_touch_allc, hd, true_and, or_true]

theorem remove_graph_spec : Statement_remove_graph_spec := by
  intro cfg m k hd
  have hq : ∀ t h, (t, h) ∈ (step cfg m (.removeGraph k)).qs ↔ ((t, h) ∈ m.qs ∧ h ≠ k) := by
    intro t h
    simp only [step, hd, if_true, dsRemoveGraph]
    split <;>
      simp only [Mem.addGraph, Mem.removeGraph, Mem.remove, mem_removeQ, ctxOk_some, matches_all, true_and]
  have hg : ∀ h, h ∈ (cgGraphs cfg (step cfg m (.removeGraph k))).2 ↔
      ((h ≠ k ∧ h ∈ m.allc) ∨ h = cfg.dflt) := by
    intro h
    simp only [cgGraphs, mem_touch_allc, hd, true_and, step, if_true, dsRemoveGraph]
    split
    · simp only [Mem.addGraph, Mem.removeGraph, mem_sinsert, mem_sremove]
      constructor
      · rintro ((e | e) | e)
        · exact Or.inr e
        · exact Or.inl e
        · exact Or.inr e
      · rintro (e | e)
        · exact Or.inl (Or.inr e)
        · exact Or.inr e
    · simp only [Mem.removeGraph, mem_sremove]
  refine ⟨?_, ?_, ?_, ?_⟩
  · intro t hc
    exact ((hq t k).mp (content_iff.mp hc)).2 rfl
  · intro h hh t
    rw [content_iff, content_iff, hq]
    exact ⟨fun x => x.1, fun x => ⟨x, hh⟩⟩
  · intro hk hc
    rcases (hg k).mp hc with e | e
    · exact e.1 rfl
    · exact hk e
  · intro h hh
    rw [hg]
    simp only [cgGraphs, mem_touch_allc, hd, true_and, hh, ne_eq, not_false_eq_true]

theorem obsTriples_nil {cfg : Cfg} {m : Mem} {k : Key} (pat : TPat)
    (hk : ¬(cfg.du = true ∧ k = cfg.dflt)) (he : ∀ t, ¬ content m k t) :
    obsTriples cfg m pat (some k) = [] := by
  unfold obsTriples
  rw [triples_fst_eq, resolveCtx_some hk]
  exact selTriples_nil (fun t ht => he t (content_iff.mpr ht))

theorem empty_or_unknown_is_empty : Statement_empty_or_unknown_is_empty := by
  intro cfg m tq c k hk
  refine ⟨?_, ?_, ?_⟩
  · intro he hc
    rw [cgTriples_snd, he]
    exact obsTriples_nil _ hk hc
  · intro he hc
    rw [cgContains_snd, he]
    unfold obsContains
    rw [obsTriples_nil _ hk hc]
    rfl
  · intro he hc
    rw [cgQuads_snd, he]
    unfold obsQuads Mem.triples
    rw [selTriples_nil (fun t ht => hc t (content_iff.mpr ht))]
    rfl

theorem union_view : Statement_union_view := by
  intro cfg m pat
  refine ⟨?_, ?_, ?_⟩
  · intro t
    unfold obsTriples
    rw [mem_triples_fst, resolveCtx_none]
    refine and_congr_right (fun _ => ?_)
    by_cases hdu : cfg.du = true
    · simp only [hdu, if_true, ctxOk_none, and_true, content_iff]
    · simp only [hdu, if_false, Bool.false_eq_true, content_iff]
      constructor
      · rintro ⟨c, h1, h2⟩
        rw [ctxOk_some.mp h2] at h1; exact h1
      · intro h1; exact ⟨_, h1, ctxOk_some.mpr rfl⟩
  · unfold obsTriples
    rw [triples_fst_eq]; exact nodup_selTriples _ _ _
  · intro hdu
    unfold obsTriples
    rw [resolveCtx_dflt_du hdu, resolveCtx_none, if_pos hdu]

theorem triples_choices : Statement_triples_choices := by
  intro cfg m ch c
  refine ⟨rfl, ?_, ?_, ?_, ?_, ?_⟩
  · intro e t
    simp only [obsChoices, List.mem_flatMap]
  · intro k hk hc
    show obsChoices cfg (graphEff cfg m c) ch c.key = []
    apply List.eq_nil_iff_forall_not_mem.mpr
    intro t ht
    obtain ⟨_, h2⟩ := mem_obsChoices.mp ht
    rw [exists_ctx_iff, hk] at h2
    exact hc t (content_iff.mpr h2)
  · intro t
    rw [mem_obsChoices, exists_ctx_iff]
    simp only [content_iff]
  · intro k t
    rw [mem_obsChoices, exists_ctx_iff]
    simp only [content_iff]
  · intro e he
    simp only [obsChoices, obsTriples, resolveChoiceCtx_eq he]

theorem path_pattern_graph : Statement_path_pattern_graph := by
  intro cfg m tq c
  refine ⟨?_, rfl, ?_, rfl⟩
  · simp only [cgPathGraph, pickCtx_key, spocKey_nodefault, effKey]
  · show resolveCtx cfg (pickCtx (asView (spocKey cfg tq false)) (spocKey cfg (.tri tq.pat) false)).key = _
    rw [pickCtx_key, asView_key, spocKey_nodefault, spocKey_nodefault]
    cases tq.garg.key <;> rfl

/-! ### registry isolation, union of the listed graphs, `default_union` switch -/

/-- `h` is listed by `graphs()` in `m'` iff it is in `m` -/
def RegSame (cfg : Cfg) (h : Key) (m m' : Mem) : Prop :=
  (h ∈ (cgGraphs cfg m').2 ↔ h ∈ (cgGraphs cfg m).2) ∧ (h ≠ cfg.dflt → (h ∈ m'.allc ↔ h ∈ m.allc))

theorem regSame_of_allc {cfg : Cfg} {h : Key} {m m' : Mem}
    (e : h ≠ cfg.dflt → (h ∈ m'.allc ↔ h ∈ m.allc))
    (ed : cfg.isDs = false → (h ∈ m'.allc ↔ h ∈ m.allc)) : RegSame cfg h m m' := by
  refine ⟨?_, e⟩
  simp only [cgGraphs, mem_touch_allc]
  by_cases hd : h = cfg.dflt
  · by_cases hi : cfg.isDs = true
    · simp [hd, hi]
    · have hi' : cfg.isDs = false := by cases h' : cfg.isDs <;> simp_all
      rw [ed hi']
  · rw [e hd]

theorem RegSame.refl (cfg : Cfg) (h : Key) (m : Mem) : RegSame cfg h m m := ⟨Iff.rfl, fun _ => Iff.rfl⟩

theorem RegSame.trans {cfg : Cfg} {h : Key} {m m' m'' : Mem} (a : RegSame cfg h m m')
    (b : RegSame cfg h m' m'') : RegSame cfg h m m'' :=
  ⟨b.1.trans a.1, fun hd => (b.2 hd).trans (a.2 hd)⟩

theorem regSame_graphEff {cfg : Cfg} {h : Key} (m : Mem) {g : GArg} (hh : h ∉ g.adds.map (·.2)) :
    RegSame cfg h m (graphEff cfg m g) := by
  have hn : ¬ ∃ t, (t, h) ∈ g.adds := fun ⟨t, ht⟩ => not_mem_adds hh ht
  apply regSame_of_allc
  · intro hd
    rw [mem_graphEff_allc]
    simp [hd, hn]
  · intro hi
    rw [mem_graphEff_allc]
    simp [hi, hn]

theorem regSame_add {cfg : Cfg} {h : Key} (m : Mem) (t : Triple) {k : Key} (hk : h ≠ k) :
    RegSame cfg h m (m.add t k) := by
  apply regSame_of_allc <;> intro _ <;> simp [Mem.add, mem_sinsert, hk]

theorem regSame_addGraph {cfg : Cfg} {h : Key} (m : Mem) {k : Key} (hk : h ≠ k) :
    RegSame cfg h m (m.addGraph k) := by
  apply regSame_of_allc <;> intro _ <;> simp [Mem.addGraph, mem_sinsert, hk]

theorem regSame_remove {cfg : Cfg} {h : Key} (m : Mem) (pat : TPat) (ctx : Option Key) :
    RegSame cfg h m (m.remove pat ctx) := by
  apply regSame_of_allc <;> intro _ <;> rfl

theorem regSame_touch {cfg : Cfg} {h : Key} (m : Mem) : RegSame cfg h m (touch cfg m) := by
  apply regSame_of_allc
  · intro hd; rw [mem_touch_allc]; simp [hd]
  · intro hi; rw [mem_touch_allc]; simp [hi]

theorem regSame_addN {cfg : Cfg} {h : Key} (qs : List (Triple × GArg)) :
    ∀ (m : Mem), h ∉ qs.filterMap (·.2.key) → RegSame cfg h m (cgAddN cfg m qs).1 := by
  induction qs with
  | nil => intro m _; exact RegSame.refl _ _ _
  | cons x r ih =>
    intro m hh
    obtain ⟨t0, g⟩ := x
    simp only [cgAddN]
    cases hk : g.key with
    | none =>
      refine regSame_graphEff m ?_
      rw [adds_nil_of_key_none hk]; simp
    | some k =>
      simp only [List.filterMap_cons, hk, List.mem_cons, not_or] at hh
      have hg : h ∉ g.adds.map (·.2) := by
        intro hm
        obtain ⟨q, hq, e⟩ := List.mem_map.mp hm
        have := adds_key hq
        rw [hk] at this; injection this with this
        exact hh.1 (by rw [← e, this])
      exact ((regSame_graphEff m hg).trans (regSame_add _ t0 hh.1)).trans (ih _ hh.2)

theorem regSame_step {cfg : Cfg} {m : Mem} {op : Op} {h : Key} (hh : h ∉ op.regTargets cfg) :
    RegSame cfg h m (step cfg m op) := by
  cases op with
  | add t0 g =>
    simp only [Op.regTargets, List.mem_cons, not_or] at hh
    have e : step cfg m (.add t0 g) = (graphEff cfg m (g.getD .none)).add t0 ((g.getD .none).key.getD cfg.dflt) := by
      cases g with
      | none => rfl
      | some g => simp only [step, cgAdd, spocKey_default, TQ.garg, Option.getD, spocEff]
    rw [e]
    exact (regSame_graphEff m hh.2).trans (regSame_add _ t0 hh.1)
  | addN qs => exact regSame_addN qs m hh
  | remove tq =>
    simp only [step, cgRemove, spocEff_eq]
    exact (regSame_graphEff m hh).trans (regSame_remove _ _ _)
  | graph g =>
    simp only [Op.regTargets, List.mem_append, not_or] at hh
    simp only [step, dsGraph]
    split
    · cases hk : g.key with
      | none => exact RegSame.refl _ _ _
      | some k =>
        have : h ≠ k := by
          intro e; apply hh.1; rw [hk]; simp [e]
        exact (regSame_graphEff m hh.2).trans (regSame_addGraph _ this)
    · exact RegSame.refl _ _ _
  | removeGraph k =>
    simp only [Op.regTargets, List.mem_singleton] at hh
    simp only [step, dsRemoveGraph]
    split
    · have h1 : RegSame cfg h m (m.removeGraph k) := by
        apply regSame_of_allc <;> intro _ <;> simp [Mem.removeGraph, mem_sremove, hh]
      split
      · next e => exact h1.trans (regSame_addGraph _ (by rw [← e]; exact hh))
      · exact h1
    · exact RegSame.refl _ _ _
  | removeContext k => exact regSame_remove _ _ _
  | vadd k t0 =>
    simp only [Op.regTargets, List.mem_singleton] at hh
    exact regSame_add m t0 hh
  | vremove k p => exact regSame_remove _ _ _
  | triples tq c =>
    simp only [Op.regTargets, List.mem_append, not_or] at hh
    simp only [step, cgTriples, spocEff_eq]
    exact (regSame_graphEff m hh.1).trans (regSame_graphEff _ (by rw [pickCtx_adds]; exact hh.2))
  | contains tq =>
    have e : step cfg m (.contains tq) =
        graphEff cfg (graphEff cfg m tq.garg) (pickCtx (asView (spocKey cfg tq false)) none) := by
      simp only [step, cgContains, cgTriples, spocEff_eq]
      rfl
    rw [e]
    exact (regSame_graphEff m hh).trans (regSame_graphEff _ (by rw [pickCtx_adds, asView_adds]; simp))
  | quads tq =>
    simp only [step, cgQuads, spocEff_eq]
    exact regSame_graphEff m hh
  | graphs => exact regSame_touch m
  | choices c => exact regSame_graphEff m hh

theorem registry_isolation : Statement_registry_isolation := by
  refine ⟨fun cfg m op h hh => regSame_step hh, ?_⟩
  intro cfg m ops
  induction ops generalizing m with
  | nil => intro h _ _; exact ⟨fun _ => Iff.rfl, Iff.rfl⟩
  | cons op ops ih =>
    intro h h1 h2
    obtain ⟨ks, hks, hk⟩ := h1 op List.mem_cons_self
    have a := isolation cfg m op ks hks h hk
    have b := (regSame_step (m := m) (h2 op List.mem_cons_self)).1
    have c := ih (step cfg m op) h (fun o ho => h1 o (List.mem_cons_of_mem _ ho))
      (fun o ho => h2 o (List.mem_cons_of_mem _ ho))
    exact ⟨fun t => (c.1 t).trans (a t), c.2.trans b⟩

theorem specStep_congr {c c' : Cfg} (h1 : c.isDs = c'.isDs) (h2 : c.dflt = c'.dflt) (σ : Spec) (o : Op) :
    σ.step c o = σ.step c' o := by
  cases o <;> simp only [Spec.step, Spec.removeGraph, h1, h2]

theorem Sim.congr {c c' : Cfg} {m : Mem} {σ : Spec} (h1 : c.isDs = c'.isDs) (h2 : c.dflt = c'.dflt)
    (h : Sim c m σ) : Sim c' m σ :=
  ⟨h.has, by intro k; rw [h.known, h1, h2], h.wf⟩

theorem sim_runS {cfg : Cfg} (sops : List SOp) :
    ∀ {s : Cfg × Mem} {σ : Spec}, s.1.isDs = cfg.isDs → s.1.dflt = cfg.dflt → Sim s.1 s.2 σ →
      (runS s sops).1.isDs = cfg.isDs ∧ (runS s sops).1.dflt = cfg.dflt ∧
      Sim (runS s sops).1 (runS s sops).2 (σ.runS cfg sops) := by
  induction sops with
  | nil => intro s σ h1 h2 h; exact ⟨h1, h2, h⟩
  | cons o r ih =>
    intro s σ h1 h2 h
    cases o with
    | op o =>
      have := sim_step h o
      rw [specStep_congr h1 h2] at this
      exact ih (s := (s.1, step s.1 s.2 o)) h1 h2 this
    | setUnion b =>
      exact ih (s := ({ s.1 with du := b }, s.2)) h1 h2
        (Sim.congr (c := s.1) (c' := { s.1 with du := b }) rfl rfl h)

theorem default_union_switch : Statement_default_union_switch :=
  ⟨fun _ _ => ⟨rfl, rfl, rfl, rfl⟩,
   fun cfg sops => agree_of_sim (sim_runS sops (s := (cfg, Mem.empty)) rfl rfl (sim_init cfg)).2.2⟩

theorem union_of_registered_graphs : Statement_union_of_registered_graphs := by
  intro cfg sops
  simp only
  have hs := (sim_runS sops (s := (cfg, Mem.empty)) rfl rfl (sim_init cfg)).2.2
  generalize runS (cfg, Mem.empty) sops = s at hs
  have wf := hs.wf
  refine ⟨?_, ?_, ?_, ?_, fun _ => ?_⟩
  · intro pat t
    rw [(union_view s.1 s.2 pat).1 t]
    refine and_congr_right (fun _ => ?_)
    by_cases hdu : s.1.du = true
    · simp only [hdu, if_true]
      constructor
      · rintro ⟨k, hk⟩
        refine ⟨k, ?_, hk⟩
        simp only [cgGraphs, mem_touch_allc]
        exact Or.inl (wf.reg _ (content_iff.mp hk))
      · rintro ⟨k, _, hk⟩; exact ⟨k, hk⟩
    · simp only [hdu, if_false, Bool.false_eq_true]
  · intro q hq
    have := (mem_quads_of_triples.mp hq).1
    simp only [cgGraphs, mem_touch_allc]
    exact Or.inl (wf.reg _ this)
  · simp only [dsIter, cgQuads, obsQuads]
    rfl
  · simp only [cgLen, Mem.len, obsTriples, triples_fst_eq, resolveCtx_none, if_true]
  · simp only [vLen, Mem.len, vTriples, triples_fst_eq]

/-! ### Non-vacuity: a concrete history (two graphs sharing a triple, a created-but-empty
    graph 95, an unknown graph 94, removals) on which the hypotheses above are met -/

def exDs : Cfg := ⟨false, 99, true⟩
def exDu : Cfg := ⟨true, 99, true⟩
def exOps : List Op :=
  [.graph (.ident 95), .add (1, 10, 20) none, .add (1, 10, 20) (some (.ident 90)),
   .vadd 91 (1, 10, 20), .add (2, 10, 21) (some (.view 91)), .addN [((3, 11, 20), .foreign 92 [(3, 11, 22)])],
   .remove (.quad (some 1, none, none) (.ident 90)), .removeGraph 92, .graphs]

example : (run exDs Mem.empty exOps).qs = [((1, 10, 20), 99), ((1, 10, 20), 91), ((2, 10, 21), 91)] := by decide
example : (cgGraphs exDs (run exDs Mem.empty exOps)).2 = [95, 99, 90, 91] := by decide
-- the shared triple survived its removal from graph 90; graph 95 is empty, 94 unknown, 99 and 91 match
example : (cgTriples exDs (run exDs Mem.empty exOps) (.tri (none, none, none)) (.view 95)).2 = [] := by decide
example : (cgContains exDs (run exDs Mem.empty exOps) (.quad (some 1, some 10, some 20) (.ident 94))).2 = false := by decide
example : (cgContains exDs (run exDs Mem.empty exOps) (.quad (some 1, some 10, some 20) (.ident 91))).2 = true := by decide
example : (cgTriples exDs (run exDs Mem.empty exOps) .nil .none).2 = [(1, 10, 20)] := by decide
example : (cgTriples exDu (run exDu Mem.empty exOps) .nil .none).2 = [(1, 10, 20), (2, 10, 21)] := by decide
example : (cgTriples exDu (run exDu Mem.empty exOps) .nil (.view 95)).2 = [] := by decide
example : WF (run exDs Mem.empty exOps) := ⟨by decide, by decide, by decide⟩
-- a history with switches of default_union: graph 93 is addressed by no operation (isolation over the
-- history), the merged view after the switch is the union of the listed graphs, len counts it
def exSOps : List SOp :=
  (exOps.map SOp.op) ++ [.setUnion true, .op (.vadd 93 (7, 7, 7)), .setUnion false, .op (.remove (.tri (some 7, none, none))),
    .setUnion true]
example : (runS (exDs, Mem.empty) exSOps).1.du = true ∧
    (runS (exDs, Mem.empty) exSOps).2.qs = [((1, 10, 20), 99), ((1, 10, 20), 91), ((2, 10, 21), 91)] ∧
    (cgGraphs (runS (exDs, Mem.empty) exSOps).1 (runS (exDs, Mem.empty) exSOps).2).2 = [95, 99, 90, 91, 93] ∧
    cgLen (runS (exDs, Mem.empty) exSOps).2 = 2 ∧
    (cgTriples (runS (exDs, Mem.empty) exSOps).1 (runS (exDs, Mem.empty) exSOps).2 .nil .none).2 = [(1, 10, 20), (2, 10, 21)] := by
  decide
example : ∀ op ∈ exOps, (∃ ks, op.targets exDs = some ks ∧ 93 ∉ ks) ∧ 93 ∉ op.regTargets exDs := by decide
-- triples_choices: predicate list [10, 11]; the empty graph 95 yields nothing, no graph = default / union
example : (cgTriplesChoices exDs (run exDs Mem.empty exOps) (.pred none [10, 11] none) (.view 95)).2 = [] := by decide
example : (cgTriplesChoices exDs (run exDs Mem.empty exOps) (.pred none [10, 11] none) .none).2 = [(1, 10, 20)] := by decide
example : (cgTriplesChoices exDu (run exDu Mem.empty exOps) (.subj [] none none) .none).2 = [(1, 10, 20), (2, 10, 21)] := by decide
example : (cgTriplesChoices exDu (run exDu Mem.empty exOps) (.obj none none [21, 20]) (.ident 91)).2 = [(2, 10, 21), (1, 10, 20)] := by decide
-- a path pattern with graph 95 as 4th element is evaluated over graph 95; with no graph: default / union
example : cgPathGraph exDs (.quad (none, none, none) (.ident 95)) .none = some 95 := by decide
example : cgPathGraph exDs (.tri (none, none, none)) .none = some 99 ∧ cgPathGraph exDu (.tri (none, none, none)) .none = none := by decide

/-! ### The defects of the pinned code (before the `fix:` commits), kept as regression witnesses -/

/-- Python truthiness of a graph argument: a `Graph` is falsy when it is empty (`__len__`) -/
def truthy (m : Mem) : GArg → Bool
  | .none => false
  | .ident _ => true
  | .view k => m.len (some k) != 0
  | .foreign _ ts => !ts.isEmpty

/-- pre-fix `context or c` -/
def pickCtxBuggy (m : Mem) (context : GArg) (c : Option Key) : GArg :=
  if truthy m context then context else asView c

def cgTriplesBuggy (cfg : Cfg) (m : Mem) (tq : TQ) (context : GArg) : Mem × List Triple :=
  let m1 := spocEff cfg m tq
  let g := pickCtxBuggy m1 context (spocKey cfg tq false)
  let m2 := graphEff cfg m1 g
  (m2, (m2.triples tq.pat (resolveCtx cfg g.key)).map (·.1))

def cgContainsBuggy (cfg : Cfg) (m : Mem) (tq : TQ) : Mem × Bool :=
  let m1 := spocEff cfg m tq
  let r := cgTriplesBuggy cfg m1 (.tri tq.pat) (asView (spocKey cfg tq false))
  (r.1, !r.2.isEmpty)

/-- C02-F1: with `context or c` a read restricted to an empty (or unknown) graph was answered from
    the default graph (from the union under `default_union`), and the absent quad was "present". -/
theorem prefix_empty_graph_falls_back :
    (cgTriplesBuggy exDs (run exDs Mem.empty exOps) (.tri (none, none, none)) (.view 95)).2 = [(1, 10, 20)] ∧
    (cgContainsBuggy exDs (run exDs Mem.empty exOps) (.quad (some 1, some 10, some 20) (.ident 94))).2 = true ∧
    (cgTriplesBuggy exDu (run exDu Mem.empty exOps) .nil (.view 95)).2 = [(1, 10, 20), (2, 10, 21)] := by
  decide

/-- pre-fix `Dataset.graphs(triple)`: the default graph was appended whenever it was not among
    the graphs of the triple -/
def cgGraphsOfBuggy (cfg : Cfg) (m : Mem) (t : Triple) : List Key :=
  if cfg.isDs && !(ctxsOf t m.qs).contains cfg.dflt then ctxsOf t m.qs ++ [cfg.dflt] else ctxsOf t m.qs

/-- C02-F3: `graphs(t)` listed the default graph for a triple that is not in it. -/
theorem prefix_graphs_of_triple_lists_default :
    cgGraphsOfBuggy exDs (run exDs Mem.empty exOps) (2, 10, 21) = [91, 99] ∧
    ¬ content (run exDs Mem.empty exOps) 99 (2, 10, 21) ∧
    cgGraphsOf (run exDs Mem.empty exOps) (2, 10, 21) = [91] := by
  refine ⟨by decide, ?_, by decide⟩
  rw [content_iff]
  decide

end RV.C02
