import RV.C02.Lemmas
namespace RV.C02

def Statement_add_names_a_graph : Prop := ∀ (cfg : Cfg) (tq : TQ), ∃ k, spocKey cfg tq true = some k
theorem add_names_a_graph : Statement_add_names_a_graph := spocKey_default_isSome

end RV.C02
