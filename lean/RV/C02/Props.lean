import RV.C02.Lemmas
/-
  C02 — "Dataset keeps named graphs isolated; the union view is the union of its graphs".

  Specification: a mathematical mapping  graph name → set of triples  plus the set of
  known (created, not removed) names.  Statements first (`def Statement_… : Prop`), then proofs.
-/
namespace RV.C02

/-! ### Specification -/

structure Spec where
  has : Key → Triple → Prop      -- graph name ↦ its set of triples
  known : Key → Prop             -- names that exist (for a Dataset the default graph always does)

def Spec.init (cfg : Cfg) : Spec :=
  ⟨fun _ _ => False, fun k => cfg.isDs = true ∧ k = cfg.dflt⟩

def Spec.add (σ : Spec) (t : Triple) (k : Key) : Spec :=
  ⟨fun k' t' => (k' = k ∧ t' = t) ∨ σ.has k' t', fun k' => k' = k ∨ σ.known k'⟩

/-- a Graph object of another store handed to the dataset is merged into the graph of its name -/
def Spec.merge (σ : Spec) (g : GArg) : Spec :=
  ⟨fun k t => σ.has k t ∨ (t, k) ∈ g.adds, fun k => σ.known k ∨ ∃ t, (t, k) ∈ g.adds⟩

/-- remove the matches from graph `k` (`ctx = some k`) or from every graph (`ctx = none`) -/
def Spec.remove (σ : Spec) (pat : TPat) (ctx : Option Key) : Spec :=
  ⟨fun k t => σ.has k t ∧ ¬(pat.matches t = true ∧ (ctx = none ∨ ctx = some k)), σ.known⟩

def Spec.create (σ : Spec) (k : Key) : Spec :=
  ⟨σ.has, fun k' => k' = k ∨ σ.known k'⟩

/-- `remove_graph`: empties and forgets only that graph; the default graph always exists -/
def Spec.removeGraph (cfg : Cfg) (σ : Spec) (k : Key) : Spec :=
  ⟨fun k' t => k' ≠ k ∧ σ.has k' t, fun k' => (k' ≠ k ∧ σ.known k') ∨ k' = cfg.dflt⟩

def Spec.addN (σ : Spec) : List (Triple × GArg) → Spec
  | [] => σ
  | (t, g) :: r =>
    match g.key with
    | none => σ.merge g
    | some k => ((σ.merge g).add t k).addN r

def Spec.step (cfg : Cfg) (σ : Spec) : Op → Spec
  | .add t g => (σ.merge (g.getD .none)).add t ((g.getD .none).key.getD cfg.dflt)
  | .addN qs => σ.addN qs
  | .remove tq => (σ.merge tq.garg).remove tq.pat tq.garg.key
  | .graph g =>
    if cfg.isDs then
      (match g.key with
       | none => σ
       | some k => (σ.merge g).create k)
    else σ
  | .removeGraph k => if cfg.isDs then σ.removeGraph cfg k else σ
  | .removeContext k => σ.remove TPat.all (some k)
  | .vadd k t => σ.add t k
  | .vremove k p => σ.remove p (some k)
  | .triples tq c => (σ.merge tq.garg).merge c
  | .contains tq => σ.merge tq.garg
  | .quads tq => σ.merge tq.garg
  | .graphs => σ

def Spec.run (cfg : Cfg) (σ : Spec) (ops : List Op) : Spec := ops.foldl (Spec.step cfg) σ

/-- what a read restricted to `e` (`none` = no graph given) must see -/
def Spec.sees (cfg : Cfg) (σ : Spec) (e : Option Key) (t : Triple) : Prop :=
  match e with
  | none => if cfg.du = true then ∃ k, σ.has k t else σ.has cfg.dflt t
  | some k => if cfg.du = true ∧ k = cfg.dflt then ∃ k', σ.has k' t else σ.has k t

/-! ### Observations of the model (pure functions of the state) -/

/-- content of graph `k` as an independently constructed `Graph(store, k)` shows it -/
def content (m : Mem) (k : Key) (t : Triple) : Prop := t ∈ vTriples m k TPat.all

/-- `ds.triples(pat, context=e)` on state `m` -/
def obsTriples (cfg : Cfg) (m : Mem) (pat : TPat) (e : Option Key) : List Triple :=
  (m.triples pat (resolveCtx cfg e)).map (·.1)

/-- `(pat, e) in ds` on state `m` -/
def obsContains (cfg : Cfg) (m : Mem) (pat : TPat) (e : Option Key) : Bool :=
  !(obsTriples cfg m pat e).isEmpty

/-- `ds.quads((pat, e))` on state `m` -/
def obsQuads (m : Mem) (pat : TPat) (e : Option Key) : List Quad := expandCtxs (m.triples pat e)

/-- all observables the property names, on one state -/
structure Agree (cfg : Cfg) (m : Mem) (σ : Spec) : Prop where
  quads : ∀ q, q ∈ obsQuads m TPat.all none ↔ σ.has q.2 q.1
  quadsPat : ∀ pat e q, q ∈ obsQuads m pat e ↔
      σ.has q.2 q.1 ∧ pat.matches q.1 = true ∧ (∀ k, e = some k → σ.has k q.1)
  quadsNodup : ∀ pat e, (obsQuads m pat e).Nodup
  graphs : ∀ k, k ∈ (cgGraphs cfg m).2 ↔ σ.known k
  graphsNodup : (cgGraphs cfg m).2.Nodup
  graphsOf : ∀ t k, k ∈ cgGraphsOf m t ↔ σ.has k t
  view : ∀ k pat t, t ∈ vTriples m k pat ↔ σ.has k t ∧ pat.matches t = true
  viewNodup : ∀ k pat, (vTriples m k pat).Nodup
  viewContains : ∀ k pat, vContains m k pat = true ↔ ∃ t, σ.has k t ∧ pat.matches t = true
  triples : ∀ pat e t, t ∈ obsTriples cfg m pat e ↔ pat.matches t = true ∧ σ.sees cfg e t
  triplesNodup : ∀ pat e, (obsTriples cfg m pat e).Nodup
  contains : ∀ pat e, obsContains cfg m pat e = true ↔ ∃ t, pat.matches t = true ∧ σ.sees cfg e t

/-! ### Statements -/

/-- The answers of the reading API calls are the pure observations of the state they leave. -/
def Statement_api_outputs_are_observations : Prop :=
  ∀ (cfg : Cfg) (m : Mem) (tq : TQ) (c : GArg),
    (cgTriples cfg m tq c).2 = obsTriples cfg (step cfg m (.triples tq c)) tq.pat (effKey tq c) ∧
    (cgContains cfg m tq).2 = obsContains cfg (step cfg m (.contains tq)) tq.pat tq.garg.key ∧
    (cgQuads cfg m tq).2 = obsQuads (step cfg m (.quads tq)) tq.pat tq.garg.key

/-- ⊢ For every history (adds, addN, removes, remove-by-pattern, graph creation / removal,
    through the dataset and through independent views, reads interleaved anywhere), every
    observable of the model is the one of the mapping  name → triple set. -/
def Statement_ds_refine_history : Prop :=
  ∀ (cfg : Cfg) (ops : List Op),
    Agree cfg (run cfg Mem.empty ops) (Spec.run cfg (Spec.init cfg) ops)

/-- the graphs an operation may change (`none` = every graph) -/
def Op.targets (cfg : Cfg) : Op → Option (List Key)
  | .add _ g => some ((g.getD .none).key.getD cfg.dflt :: (g.getD .none).adds.map (·.2))
  | .addN qs => some (qs.filterMap (·.2.key))
  | .remove tq =>
    match tq.garg.key with
    | none => none
    | some k => some [k]
  | .graph g => some (g.adds.map (·.2))
  | .removeGraph k => some [k]
  | .removeContext k => some [k]
  | .vadd k _ => some [k]
  | .vremove k _ => some [k]
  | .triples tq c => some (tq.garg.adds.map (·.2) ++ c.adds.map (·.2))
  | .contains tq => some (tq.garg.adds.map (·.2))
  | .quads tq => some (tq.garg.adds.map (·.2))
  | .graphs => some []

/-- Operations on graph `g` leave the content of every other graph unchanged
    (in particular reads with identifiers / same-store views change no graph at all). -/
def Statement_isolation : Prop :=
  ∀ (cfg : Cfg) (m : Mem) (op : Op) (ks : List Key), WF m → op.targets cfg = some ks →
    ∀ h, h ∉ ks → ∀ t, content (step cfg m op) h t ↔ content m h t

/-- A triple shared by two graphs survives its removal from one of them. -/
def Statement_shared_triple_survives : Prop :=
  ∀ (cfg : Cfg) (m : Mem) (t : Triple) (g h : Key) (p : TPat), WF m → g ≠ h → content m h t →
    content (step cfg m (.remove (.quad p (.ident g)))) h t ∧
    content (step cfg m (.vremove g p)) h t

/-- Removing with no graph given removes the matches from every graph and nothing else. -/
def Statement_remove_all_graphs : Prop :=
  ∀ (cfg : Cfg) (m : Mem) (tq : TQ), tq.garg.key = none →
    ∀ h t, content (step cfg m (.remove tq)) h t ↔ (content m h t ∧ ¬ tq.pat.matches t = true)

/-- `remove_graph(k)`: `k` becomes empty and (unless it is the default graph) is no longer
    listed; every other graph keeps its content and its listing. -/
def Statement_remove_graph_spec : Prop :=
  ∀ (cfg : Cfg) (m : Mem) (k : Key), cfg.isDs = true → WF m →
    (∀ t, ¬ content (step cfg m (.removeGraph k)) k t) ∧
    (∀ h, h ≠ k → ∀ t, content (step cfg m (.removeGraph k)) h t ↔ content m h t) ∧
    (k ≠ cfg.dflt → k ∉ (cgGraphs cfg (step cfg m (.removeGraph k))).2) ∧
    (∀ h, h ≠ k → (h ∈ (cgGraphs cfg (step cfg m (.removeGraph k))).2 ↔ h ∈ (cgGraphs cfg m).2))

/-- The default graph of a Dataset is listed by `graphs()` in every state. -/
def Statement_default_always_exists : Prop :=
  ∀ (cfg : Cfg) (m : Mem), cfg.isDs = true → cfg.dflt ∈ (cgGraphs cfg m).2

/-- ⊢ A read restricted to a graph that is empty or unknown returns nothing (both
    `default_union` values; under `default_union` the name of the default graph denotes the
    merged view, which is `union_view`). -/
def Statement_empty_or_unknown_is_empty : Prop :=
  ∀ (cfg : Cfg) (m : Mem) (tq : TQ) (c : GArg) (k : Key),
    ¬(cfg.du = true ∧ k = cfg.dflt) →
    (effKey tq c = some k → (∀ t, ¬ content (cgTriples cfg m tq c).1 k t) →
        (cgTriples cfg m tq c).2 = []) ∧
    (tq.garg.key = some k → (∀ t, ¬ content (cgContains cfg m tq).1 k t) →
        (cgContains cfg m tq).2 = false) ∧
    (tq.garg.key = some k → (∀ t, ¬ content (cgQuads cfg m tq).1 k t) →
        (cgQuads cfg m tq).2 = [])

/-- A read with no graph given: the union of all graphs under `default_union` (each triple once),
    the default graph otherwise; naming the default graph under `default_union` is the same. -/
def Statement_union_view : Prop :=
  ∀ (cfg : Cfg) (m : Mem) (pat : TPat),
    (∀ t, t ∈ obsTriples cfg m pat none ↔
        pat.matches t = true ∧ (if cfg.du = true then ∃ k, content m k t else content m cfg.dflt t)) ∧
    (obsTriples cfg m pat none).Nodup ∧
    (cfg.du = true → obsTriples cfg m pat (some cfg.dflt) = obsTriples cfg m pat none)

/-! ### Simulation -/

structure Sim (cfg : Cfg) (m : Mem) (σ : Spec) : Prop where
  has : ∀ t k, (t, k) ∈ m.qs ↔ σ.has k t
  known : ∀ k, σ.known k ↔ (k ∈ m.allc ∨ (cfg.isDs = true ∧ k = cfg.dflt))
  wf : WF m

theorem ctxOk_iff {ctx : Option Key} {k : Key} : ctxOk ctx k = true ↔ (ctx = none ∨ ctx = some k) := by
  cases ctx with
  | none => simp [ctxOk]
  | some c =>
    simp only [ctxOk, beq_iff_eq]
    constructor
    · intro e; exact Or.inr (by rw [e])
    · rintro (e | e)
      · cases e
      · injection e with e; exact e.symm

theorem content_iff {m : Mem} {k : Key} {t : Triple} : content m k t ↔ (t, k) ∈ m.qs := by
  unfold content vTriples
  rw [mem_triples_fst]
  constructor
  · rintro ⟨_, c, h1, h2⟩
    rw [ctxOk_some.mp h2] at h1; exact h1
  · intro h; exact ⟨matches_all _, k, h, ctxOk_some.mpr rfl⟩

theorem sim_init (cfg : Cfg) : Sim cfg Mem.empty (Spec.init cfg) :=
  ⟨fun _ _ => ⟨fun h => absurd h List.not_mem_nil, False.elim⟩,
   fun _ => ⟨Or.inr, fun h => h.elim (fun e => absurd e List.not_mem_nil) id⟩, WF.empty⟩

theorem merge_pickCtx (σ : Spec) (c : GArg) (x : Option Key) : σ.merge (pickCtx c x) = σ.merge c := by
  simp only [Spec.merge, pickCtx_adds]

theorem merge_asView (σ : Spec) (x : Option Key) : σ.merge (asView x) = σ := by
  simp [Spec.merge, asView_adds]

theorem sim_add {cfg : Cfg} {m : Mem} {σ : Spec} (h : Sim cfg m σ) (t : Triple) (k : Key) :
    Sim cfg (m.add t k) (σ.add t k) := by
  refine ⟨?_, ?_, h.wf.add t k⟩
  · intro t' k'
    simp only [Mem.add, mem_sinsert, Spec.add, Prod.mk.injEq, h.has]
    constructor
    · rintro (⟨e1, e2⟩ | e)
      · exact Or.inl ⟨e2, e1⟩
      · exact Or.inr e
    · rintro (⟨e1, e2⟩ | e)
      · exact Or.inl ⟨e2, e1⟩
      · exact Or.inr e
  · intro k'
    simp only [Mem.add, mem_sinsert, Spec.add, h.known, or_assoc]

theorem sim_merge {cfg : Cfg} {m : Mem} {σ : Spec} (h : Sim cfg m σ) (g : GArg) :
    Sim cfg (graphEff cfg m g) (σ.merge g) := by
  refine ⟨?_, ?_, h.wf.graphEff cfg g⟩
  · intro t k
    simp only [mem_graphEff_qs, Spec.merge, h.has]
  · intro k
    simp only [mem_graphEff_allc h.wf, Spec.merge, h.known]
    constructor
    · rintro ((e | e) | e)
      · exact Or.inl (Or.inl e)
      · exact Or.inr e
      · exact Or.inl (Or.inr (Or.inr e))
    · rintro ((e | ⟨_, e⟩ | e) | e)
      · exact Or.inl (Or.inl e)
      · exact Or.inl (Or.inr e)
      · exact Or.inr e
      · exact Or.inl (Or.inr e)

theorem sim_remove {cfg : Cfg} {m : Mem} {σ : Spec} (h : Sim cfg m σ) (pat : TPat) (ctx : Option Key) :
    Sim cfg (m.remove pat ctx) (σ.remove pat ctx) := by
  refine ⟨?_, h.known, h.wf.remove pat ctx⟩
  intro t k
  simp only [Mem.remove, mem_removeQ, Spec.remove, h.has, ctxOk_iff]

theorem sim_create {cfg : Cfg} {m : Mem} {σ : Spec} (h : Sim cfg m σ) (k : Key) :
    Sim cfg (m.addGraph k) (σ.create k) := by
  refine ⟨h.has, ?_, h.wf.addGraph k⟩
  intro k'
  simp only [Mem.addGraph, mem_sinsert, Spec.create, h.known, or_assoc]

theorem sim_touch {cfg : Cfg} {m : Mem} {σ : Spec} (h : Sim cfg m σ) : Sim cfg (touch cfg m) σ := by
  refine ⟨by rw [touch_qs]; exact h.has, ?_, h.wf.touch cfg⟩
  intro k
  rw [h.known, mem_touch_allc]
  constructor
  · rintro (e | e)
    · exact Or.inl (Or.inl e)
    · exact Or.inr e
  · rintro ((e | e) | e)
    · exact Or.inl e
    · exact Or.inr e
    · exact Or.inr e

theorem sim_removeGraph {cfg : Cfg} {m : Mem} {σ : Spec} (h : Sim cfg m σ) (hd : cfg.isDs = true)
    (k : Key) : Sim cfg (dsRemoveGraph cfg m k) (σ.removeGraph cfg k) := by
  have hq : ∀ t k', (t, k') ∈ (m.removeGraph k).qs ↔ (k' ≠ k ∧ σ.has k' t) := by
    intro t k'
    simp only [Mem.removeGraph, Mem.remove, mem_removeQ, h.has, matches_all, ctxOk_some, true_and]
    exact and_comm
  unfold dsRemoveGraph
  simp only
  split
  · next e =>
    refine ⟨hq, ?_, (h.wf.removeGraph k).addGraph _⟩
    intro k'
    simp only [Spec.removeGraph, Mem.addGraph, Mem.removeGraph, mem_sinsert, mem_sremove, h.known, hd,
      true_and, e]
    constructor
    · rintro (⟨e1, (e2 | e2)⟩ | e1)
      · exact Or.inl (Or.inr ⟨e1, e2⟩)
      · exact Or.inr e2
      · exact Or.inr e1
    · rintro ((e1 | ⟨e1, e2⟩) | e1)
      · exact Or.inr e1
      · exact Or.inl ⟨e1, Or.inl e2⟩
      · exact Or.inr e1
  · next e =>
    refine ⟨hq, ?_, h.wf.removeGraph k⟩
    intro k'
    simp only [Spec.removeGraph, Mem.removeGraph, mem_sremove, h.known, hd, true_and]
    constructor
    · rintro (⟨e1, (e2 | e2)⟩ | e1)
      · exact Or.inl ⟨e1, e2⟩
      · exact Or.inr e2
      · exact Or.inr e1
    · rintro (⟨e1, e2⟩ | e1)
      · exact Or.inl ⟨e1, Or.inl e2⟩
      · exact Or.inr e1

theorem sim_addN {cfg : Cfg} (qs : List (Triple × GArg)) :
    ∀ {m : Mem} {σ : Spec}, Sim cfg m σ → Sim cfg (cgAddN cfg m qs).1 (σ.addN qs) := by
  induction qs with
  | nil => intro m σ h; exact h
  | cons x r ih =>
    intro m σ h
    obtain ⟨t, g⟩ := x
    simp only [cgAddN, Spec.addN]
    cases hk : g.key with
    | none => exact sim_merge h g
    | some k => exact ih (sim_add (sim_merge h g) t k)

theorem sim_step {cfg : Cfg} {m : Mem} {σ : Spec} (h : Sim cfg m σ) (op : Op) :
    Sim cfg (step cfg m op) (σ.step cfg op) := by
  cases op with
  | add t g =>
    simp only [step, Spec.step, cgAdd]
    cases g with
    | none =>
      simp only [spocKey, spocEff, Option.getD, GArg.key]
      exact sim_add (sim_merge h .none) t _
    | some g =>
      simp only [spocEff, Option.getD]
      rw [spocKey_default]
      exact sim_add (sim_merge h g) t _
  | addN qs => exact sim_addN qs h
  | remove tq =>
    simp only [step, Spec.step, cgRemove]
    rw [spocEff_eq, spocKey_nodefault]
    exact sim_remove (sim_merge h _) _ _
  | graph g =>
    simp only [step, Spec.step, dsGraph]
    split
    · cases hk : g.key with
      | none => exact h
      | some k => exact sim_create (sim_merge h g) k
    · exact h
  | removeGraph k =>
    simp only [step, Spec.step]
    split
    · next hd => exact sim_removeGraph h hd k
    · exact h
  | removeContext k => exact sim_remove h _ _
  | vadd k t => exact sim_add h t k
  | vremove k p => exact sim_remove h p _
  | triples tq c =>
    have h1 := sim_merge (sim_merge h tq.garg) (pickCtx c (spocKey cfg tq false))
    rw [merge_pickCtx] at h1
    simp only [step, Spec.step, cgTriples, spocEff_eq]
    exact h1
  | contains tq =>
    have h1 := sim_merge (sim_merge h tq.garg)
      (pickCtx (asView (spocKey cfg tq false)) (spocKey cfg (.tri tq.pat) false))
    rw [merge_pickCtx, merge_asView] at h1
    simp only [step, Spec.step, cgContains, cgTriples, spocEff_eq]
    exact h1
  | quads tq =>
    simp only [step, Spec.step, cgQuads]
    rw [spocEff_eq]
    exact sim_merge h _
  | graphs => exact sim_touch h

theorem sim_run {cfg : Cfg} (ops : List Op) :
    ∀ {m : Mem} {σ : Spec}, Sim cfg m σ → Sim cfg (run cfg m ops) (σ.run cfg ops) := by
  induction ops with
  | nil => intro m σ h; exact h
  | cons op ops ih => intro m σ h; exact ih (sim_step h op)

end RV.C02
