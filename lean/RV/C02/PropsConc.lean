import RV.C02.LemConc
/-
  C02 rounds g/h — composition with C01: the Dataset / ConjunctiveGraph layer over the CONCRETE
  `Memory` model (`RV.C02.Conc`, store = `RV.C01.NMem` since round h: three NESTED-dictionary indexes
  (insertion ladders, leaf-only deletion, level-by-level walks), default-context compression,
  `__contextTriples`, `__all_contexts`, `err` flag).  Every theorem below is therefore ONE statement about
  the chain  Dataset layer → three nested indexes → mapping graph name → triple set.

  Before this round the refinement "Memory behaves as a set of (triple, graph) pairs plus a set of
  registered graphs" was an assumption of C02 tied by correspondence only.  Here it is discharged:
  every operation of the layer, run over the concrete store, is simulated by the same operation over
  the abstract store (`conc_refines_abstract`), every answer is the same set (`conc_answers_agree`),
  hence every observable is the one the mapping  graph name → triple set  prescribes
  (`conc_refine_history`), and isolation / union view / empty-or-unknown / remove_graph hold over the
  concrete store after every history (`conc_isolation`, `conc_union_view_and_empty`,
  `conc_graph_lifecycle`).  Statements first, then proofs.
-/
namespace RV.C02
open RV

namespace Conc

/-! ### Observations of the concrete store (pure functions of the state) -/

/-- content of graph `k` as an independently constructed `Graph(store, k)` shows it -/
def content (mc : CMem) (k : Key) (t : Triple) : Prop := t ∈ vTriples mc k TPat.all

def obsTriples (cfg : Cfg) (mc : CMem) (pat : TPat) (e : Option Key) : List Triple :=
  (mc.triplesC pat (resolveCtx cfg e)).map (·.1)

def obsContains (cfg : Cfg) (mc : CMem) (pat : TPat) (e : Option Key) : Bool :=
  !(obsTriples cfg mc pat e).isEmpty

def obsQuads (mc : CMem) (pat : TPat) (e : Option Key) : List Quad := expandCtxs (mc.triplesC pat e)

def obsChoices (cfg : Cfg) (mc : CMem) (ch : Choice) (e : Option Key) : List Triple :=
  ch.pats.flatMap (fun p => (mc.triplesC p (resolveChoiceCtx cfg e)).map (·.1))

/-- configuration and concrete store after a history (with `default_union` switches) from the empty store -/
def after (cfg : Cfg) (sops : List SOp) : Cfg × CMem := runS (cfg, C01.NMem.init) sops

/-- all observables the property names, on one concrete state, against the mapping `σ`;
    plus: nothing raised, `store.contexts()`, `len` -/
structure Agree (cfg : Cfg) (mc : CMem) (σ : Spec) : Prop where
  noRaise : mc.cx.err = false ∧ ∀ pat, mc.triplesRaises pat = false
  quads : ∀ q, q ∈ obsQuads mc TPat.all none ↔ σ.has q.2 q.1
  quadsPat : ∀ pat e q, q ∈ obsQuads mc pat e ↔
      σ.has q.2 q.1 ∧ pat.matches q.1 = true ∧ (∀ k, e = some k → σ.has k q.1)
  quadsNodup : ∀ pat e, (obsQuads mc pat e).Nodup
  graphs : ∀ k, k ∈ (cgGraphs cfg mc).2 ↔ σ.known k
  graphsNodup : (cgGraphs cfg mc).2.Nodup
  storeContexts : ∀ k, (k ∈ storeContexts mc ∨ (cfg.isDs = true ∧ k = cfg.dflt)) ↔ σ.known k
  storeContextsNodup : (Conc.storeContexts mc).Nodup
  graphsOf : ∀ t k, k ∈ cgGraphsOf mc t ↔ σ.has k t
  graphsOfNodup : ∀ t, (cgGraphsOf mc t).Nodup
  view : ∀ k pat t, t ∈ vTriples mc k pat ↔ σ.has k t ∧ pat.matches t = true
  viewNodup : ∀ k pat, (vTriples mc k pat).Nodup
  viewContains : ∀ k pat, vContains mc k pat = true ↔ ∃ t, σ.has k t ∧ pat.matches t = true
  viewLen : ∀ k, vLen mc k = (vTriples mc k TPat.all).length
  triples : ∀ pat e t, t ∈ obsTriples cfg mc pat e ↔ pat.matches t = true ∧ σ.sees cfg e t
  triplesNodup : ∀ pat e, (obsTriples cfg mc pat e).Nodup
  contains : ∀ pat e, obsContains cfg mc pat e = true ↔ ∃ t, pat.matches t = true ∧ σ.sees cfg e t
  choices : ∀ ch e t, t ∈ obsChoices cfg mc ch e ↔
      (∃ p ∈ ch.pats, p.matches t = true) ∧ σ.seesChoice cfg e t
  viewChoices : ∀ k ch t, t ∈ vChoices mc k ch ↔ (∃ p ∈ ch.pats, p.matches t = true) ∧ σ.has k t
  /-- `len(ds)` = number of distinct triples in the union of the graphs, however it is enumerated -/
  len : ∀ (l : List Triple), l.Nodup → (∀ t, t ∈ l ↔ ∃ k, σ.has k t) → cgLen mc = l.length
  /-- the three NESTED indexes under the Dataset: every dictionary level has unique keys, and `spo[s][p][o]`,
      `pos[p][o][s]`, `osp[o][s][p]` exist together, exactly for the triples some graph of the mapping holds -/
  index : C01.NWF mc ∧ ∀ (s p o : Nat), (C01.idxHas mc.ispo s p o = true ↔ ∃ k, σ.has k (s, p, o)) ∧
    C01.idxHas mc.ipos p o s = C01.idxHas mc.ispo s p o ∧ C01.idxHas mc.iosp o s p = C01.idxHas mc.ispo s p o

end Conc

/-! ### Statements -/

/-- ⊢ Every operation of the layer over the concrete `Memory` is simulated by the same operation over
    the abstract set-of-quads store: the relation `Rel` (C01's representation invariant `Inv` — index
    coherence, context-set bookkeeping, no exception — plus "the (triple, graph) pairs held are exactly
    `qs`, the registered graphs exactly `allc`") holds initially, is kept by every step from ANY related
    pair of states, and therefore after every history with `default_union` switches. -/
def Statement_conc_refines_abstract : Prop :=
  Conc.Rel C01.NMem.init Mem.empty ∧
  (∀ (cfg : Cfg) (mc : Conc.CMem) (ma : Mem) (op : Op), Conc.Rel mc ma →
      Conc.Rel (Conc.step cfg mc op) (step cfg ma op)) ∧
  (∀ (cfg : Cfg) (sops : List SOp),
      (Conc.after cfg sops).1 = (runS (cfg, Mem.empty) sops).1 ∧
      Conc.Rel (Conc.after cfg sops).2 (runS (cfg, Mem.empty) sops).2)

/-- ⊢ On related states every reading call of the layer gives the same answer over the concrete store
    as over the abstract one (lists as sets, the concrete ones duplicate-free; Booleans and lengths equal),
    and leaves related states. -/
def Statement_conc_answers_agree : Prop :=
  ∀ (cfg : Cfg) (mc : Conc.CMem) (ma : Mem), Conc.Rel mc ma →
    (∀ tq c, Conc.Rel (Conc.cgTriples cfg mc tq c).1 (cgTriples cfg ma tq c).1 ∧
        (Conc.cgTriples cfg mc tq c).2.Nodup ∧
        ∀ t, t ∈ (Conc.cgTriples cfg mc tq c).2 ↔ t ∈ (cgTriples cfg ma tq c).2) ∧
    (∀ tq, Conc.Rel (Conc.cgContains cfg mc tq).1 (cgContains cfg ma tq).1 ∧
        (Conc.cgContains cfg mc tq).2 = (cgContains cfg ma tq).2) ∧
    (∀ tq, Conc.Rel (Conc.cgQuads cfg mc tq).1 (cgQuads cfg ma tq).1 ∧
        (Conc.cgQuads cfg mc tq).2.Nodup ∧
        ∀ q, q ∈ (Conc.cgQuads cfg mc tq).2 ↔ q ∈ (cgQuads cfg ma tq).2) ∧
    (∀ ch c, Conc.Rel (Conc.cgTriplesChoices cfg mc ch c).1 (cgTriplesChoices cfg ma ch c).1 ∧
        ∀ t, t ∈ (Conc.cgTriplesChoices cfg mc ch c).2 ↔ t ∈ (cgTriplesChoices cfg ma ch c).2) ∧
    (Conc.Rel (Conc.cgGraphs cfg mc).1 (cgGraphs cfg ma).1 ∧ (Conc.cgGraphs cfg mc).2.Nodup ∧
        ∀ k, k ∈ (Conc.cgGraphs cfg mc).2 ↔ k ∈ (cgGraphs cfg ma).2) ∧
    (∀ t, (Conc.cgGraphsOf mc t).Nodup ∧ ∀ k, k ∈ Conc.cgGraphsOf mc t ↔ k ∈ cgGraphsOf ma t) ∧
    ((Conc.storeContexts mc).Nodup ∧ ∀ k, k ∈ Conc.storeContexts mc ↔ k ∈ ma.allc) ∧
    (Conc.cgLen mc = cgLen ma ∧ ∀ k, Conc.vLen mc k = vLen ma k) ∧
    (∀ k p, (Conc.vTriples mc k p).Nodup ∧ (∀ t, t ∈ Conc.vTriples mc k p ↔ t ∈ vTriples ma k p) ∧
        Conc.vContains mc k p = vContains ma k p) ∧
    (∀ k ch t, t ∈ Conc.vChoices mc k ch ↔ t ∈ vChoices ma k ch) ∧
    (∀ qs, Conc.Rel (Conc.dsIadd cfg mc qs).1 (cgAddN cfg ma qs).1 ∧
        (Conc.dsIadd cfg mc qs).2 = (cgAddN cfg ma qs).2 ∧ Conc.dsIadd cfg mc qs = Conc.cgAddN cfg mc qs) ∧
    (Conc.Rel (Conc.dsIter cfg mc).1 (dsIter cfg ma).1 ∧
        ∀ q, q ∈ (Conc.dsIter cfg mc).2 ↔ q ∈ (dsIter cfg ma).2)

/-- The answers of the reading calls over the concrete store are the pure observations of the state
    the call leaves. -/
def Statement_conc_api_outputs_are_observations : Prop :=
  ∀ (cfg : Cfg) (mc : Conc.CMem) (tq : TQ) (c : GArg) (ch : Choice),
    (Conc.cgTriples cfg mc tq c).2 = Conc.obsTriples cfg (Conc.step cfg mc (.triples tq c)) tq.pat (effKey tq c) ∧
    (Conc.cgContains cfg mc tq).2 = Conc.obsContains cfg (Conc.step cfg mc (.contains tq)) tq.pat tq.garg.key ∧
    (Conc.cgQuads cfg mc tq).2 = Conc.obsQuads (Conc.step cfg mc (.quads tq)) tq.pat tq.garg.key ∧
    (Conc.cgTriplesChoices cfg mc ch c).2 = Conc.obsChoices cfg (Conc.step cfg mc (.choices c)) ch c.key

/-- ⊢ For every history over the CONCRETE store (adds, addN / `+=`, removes, remove-by-pattern, graph
    creation / removal, through the dataset and through independent views, foreign Graph arguments,
    reads interleaved anywhere, `default_union` switched anywhere) every observable is the one of the
    mapping  name → triple set  under the current configuration; no store operation raised. -/
def Statement_conc_refine_history : Prop :=
  ∀ (cfg : Cfg) (sops : List SOp),
    Conc.Agree (Conc.after cfg sops).1 (Conc.after cfg sops).2 (Spec.runS cfg (Spec.init cfg) sops)

/-- ⊢ Isolation over the concrete store, after every history: an operation leaves the content of
    every graph it does not target unchanged (so a triple shared by two graphs survives its removal
    from one of them whatever the order in which its contexts were attached and whatever the
    default-context compression did); removing with no graph given removes the matches from every
    graph and nothing else; the registration in `store.contexts()` and the listing by `graphs()` of
    every graph the operation does not address is unchanged. -/
def Statement_conc_isolation : Prop :=
  ∀ (cfg : Cfg) (sops : List SOp) (op : Op),
    let s := Conc.after cfg sops
    (∀ ks, op.targets s.1 = some ks → ∀ h, h ∉ ks →
        ∀ t, Conc.content (Conc.step s.1 s.2 op) h t ↔ Conc.content s.2 h t) ∧
    (∀ tq, op = .remove tq → tq.garg.key = none →
        ∀ h t, Conc.content (Conc.step s.1 s.2 op) h t ↔ (Conc.content s.2 h t ∧ ¬ tq.pat.matches t = true)) ∧
    (∀ h, h ∉ op.regTargets s.1 → h ≠ s.1.dflt →
        (h ∈ Conc.storeContexts (Conc.step s.1 s.2 op) ↔ h ∈ Conc.storeContexts s.2)) ∧
    (∀ h, h ∉ op.regTargets s.1 →
        (h ∈ (Conc.cgGraphs s.1 (Conc.step s.1 s.2 op)).2 ↔ h ∈ (Conc.cgGraphs s.1 s.2).2))

/-- ⊢ The scenario the property's `why_tests_cant` names, over the concrete store: after ANY history — hence
    for every order in which graphs were attached to the triple and whatever the default-context
    compression made of its context set — a triple held by graph `h` survives its removal (exact or by
    pattern, through the dataset or through a view, or by `remove_context` / `remove_graph`) from any other
    graph `g`; and it stays in the merged view: `len` does not drop below the triples `h` holds, and a read
    of the union still yields it. -/
def Statement_conc_shared_triple_survives : Prop :=
  ∀ (cfg : Cfg) (sops : List SOp) (t : Triple) (g h : Key) (p : TPat),
    let s := Conc.after cfg sops
    g ≠ h → Conc.content s.2 h t →
      Conc.content (Conc.step s.1 s.2 (.remove (.quad p (.ident g)))) h t ∧
      Conc.content (Conc.step s.1 s.2 (.remove (.quad p (.view g)))) h t ∧
      Conc.content (Conc.step s.1 s.2 (.vremove g p)) h t ∧
      Conc.content (Conc.step s.1 s.2 (.removeContext g)) h t ∧
      Conc.content (Conc.step s.1 s.2 (.removeGraph g)) h t ∧
      t ∈ Conc.obsTriples { s.1 with du := true } (Conc.step s.1 s.2 (.remove (.quad p (.ident g)))) TPat.all none

/-- ⊢ Union view and empty-or-unknown over the concrete store, after every history: a read without a
    graph is the union of the graphs `graphs()` lists (each triple once) under `default_union`, the
    default graph otherwise; a read (`triples`, `in`, `quads`, `triples_choices`) restricted to a graph
    whose own view is empty — created but empty, emptied, or never heard of — returns nothing, it never
    falls back to another graph. -/
def Statement_conc_union_view_and_empty : Prop :=
  ∀ (cfg : Cfg) (sops : List SOp),
    let s := Conc.after cfg sops
    (∀ pat t, t ∈ Conc.obsTriples s.1 s.2 pat none ↔
        pat.matches t = true ∧
          (if s.1.du = true then ∃ k, k ∈ (Conc.cgGraphs s.1 s.2).2 ∧ Conc.content s.2 k t
           else Conc.content s.2 s.1.dflt t)) ∧
    (∀ pat, (Conc.obsTriples s.1 s.2 pat none).Nodup) ∧
    (∀ (tq : TQ) (c : GArg) (k : Key), ¬(s.1.du = true ∧ k = s.1.dflt) →
      (effKey tq c = some k → (∀ t, ¬ Conc.content (Conc.cgTriples s.1 s.2 tq c).1 k t) →
          (Conc.cgTriples s.1 s.2 tq c).2 = []) ∧
      (tq.garg.key = some k → (∀ t, ¬ Conc.content (Conc.cgContains s.1 s.2 tq).1 k t) →
          (Conc.cgContains s.1 s.2 tq).2 = false) ∧
      (tq.garg.key = some k → (∀ t, ¬ Conc.content (Conc.cgQuads s.1 s.2 tq).1 k t) →
          (Conc.cgQuads s.1 s.2 tq).2 = [])) ∧
    (∀ (ch : Choice) (c : GArg) (k : Key), c.key = some k →
      (∀ t, ¬ Conc.content (Conc.cgTriplesChoices s.1 s.2 ch c).1 k t) →
          (Conc.cgTriplesChoices s.1 s.2 ch c).2 = [])

/-- ⊢ Graph life cycle over the concrete store, after every history of a Dataset:
    `remove_graph(k)` empties `k`, unregisters it from `store.contexts()` and from `graphs()` unless it
    is the default graph, which stays listed; every other graph keeps content and listing;
    removing and then re-adding (`add((s,p,o,k))`) gives a listed graph holding exactly the new triple —
    nothing of its former content comes back;
    `graph(None)`: for a name that is fresh (not registered, no triples — what `BNode().skolemize()`
    provides), `graph(name)` registers and lists it, it is empty, and no other graph changes. -/
def Statement_conc_graph_lifecycle : Prop :=
  ∀ (cfg : Cfg) (sops : List SOp) (k : Key),
    let s := Conc.after cfg sops
    s.1.isDs = true →
    (let m' := Conc.step s.1 s.2 (.removeGraph k)
     (∀ t, ¬ Conc.content m' k t) ∧
     (∀ h, h ≠ k → ∀ t, Conc.content m' h t ↔ Conc.content s.2 h t) ∧
     (k ≠ s.1.dflt → k ∉ Conc.storeContexts m' ∧ k ∉ (Conc.cgGraphs s.1 m').2) ∧
     s.1.dflt ∈ (Conc.cgGraphs s.1 m').2 ∧
     (∀ h, h ≠ k → (h ∈ (Conc.cgGraphs s.1 m').2 ↔ h ∈ (Conc.cgGraphs s.1 s.2).2)) ∧
     (∀ t t', Conc.content (Conc.step s.1 m' (.add t (some (.ident k)))) k t' ↔ t' = t) ∧
     (∀ t, k ∈ (Conc.cgGraphs s.1 (Conc.step s.1 m' (.add t (some (.ident k))))).2)) ∧
    (k ∉ Conc.storeContexts s.2 → (∀ t, ¬ Conc.content s.2 k t) →
      let m' := Conc.dsGraphFresh s.1 s.2 k
      k ∈ Conc.storeContexts m' ∧ k ∈ (Conc.cgGraphs s.1 m').2 ∧ (∀ t, ¬ Conc.content m' k t) ∧
      (∀ h t, Conc.content m' h t ↔ Conc.content s.2 h t) ∧
      (∀ h, h ≠ k → (h ∈ Conc.storeContexts m' ↔ h ∈ Conc.storeContexts s.2)))

/-- ⊢ `remove_graph(None)` over the concrete store, after every history: the graph it addresses has a name nobody
    used (not registered, no triples, not the default graph), and then the call changes NOTHING: no graph's content,
    not `store.contexts()`, not `graphs()` — in particular it does not empty the default graph. -/
def Statement_conc_remove_graph_none : Prop :=
  ∀ (cfg : Cfg) (sops : List SOp) (k : Key),
    let s := Conc.after cfg sops
    k ∉ Conc.storeContexts s.2 → (∀ t, ¬ Conc.content s.2 k t) → k ≠ s.1.dflt →
      let m' := Conc.dsRemoveGraphNone s.1 s.2 k
      (∀ h t, Conc.content m' h t ↔ Conc.content s.2 h t) ∧
      (∀ h, h ∈ Conc.storeContexts m' ↔ h ∈ Conc.storeContexts s.2) ∧
      (∀ h, h ∈ (Conc.cgGraphs s.1 m').2 ↔ h ∈ (Conc.cgGraphs s.1 s.2).2) ∧
      m'.cx.err = false

/-! ### Proofs -/

theorem conc_reach (cfg : Cfg) (sops : List SOp) :
    (Conc.after cfg sops).1 = (runS (cfg, Mem.empty) sops).1 ∧
      Conc.Rel (Conc.after cfg sops).2 (runS (cfg, Mem.empty) sops).2 :=
  Conc.rel_runS sops (sc := (cfg, C01.NMem.init)) (sa := (cfg, Mem.empty)) rfl Conc.rel_init

theorem conc_refines_abstract : Statement_conc_refines_abstract :=
  ⟨Conc.rel_init, fun cfg _ _ op h => Conc.rel_step cfg h op, conc_reach⟩

theorem conc_answers_agree : Statement_conc_answers_agree := by
  intro cfg mc ma h
  refine ⟨?_, ?_, ?_, ?_, ?_, ?_, ?_, ?_, ?_, ?_, ?_, ?_⟩
  · intro tq c
    exact ⟨Conc.rel_cgTriples cfg h tq c, (Conc.cgTriples_out cfg h tq c).1, (Conc.cgTriples_out cfg h tq c).2⟩
  · intro tq
    exact ⟨Conc.rel_cgContains cfg h tq, Conc.cgContains_out cfg h tq⟩
  · intro tq
    exact ⟨Conc.rel_spocEff cfg h tq, (Conc.cgQuads_out cfg h tq).1, (Conc.cgQuads_out cfg h tq).2⟩
  · intro ch c
    exact ⟨Conc.rel_graphEff cfg h c, Conc.cgChoices_out cfg h ch c⟩
  · exact Conc.rel_cgGraphs cfg h
  · intro t
    exact ⟨Conc.nodup_cGraphsOf h t, Conc.mem_cGraphsOf h t⟩
  · exact ⟨Conc.nodup_storeContexts h, Conc.mem_storeContexts h⟩
  · exact ⟨Conc.clen_eq h none, fun k => Conc.clen_eq h (some k)⟩
  · intro k p
    exact ⟨(Conc.vTriples_out h k p).1, (Conc.vTriples_out h k p).2, Conc.vContains_out h k p⟩
  · intro k ch
    exact Conc.vChoices_out h k ch
  · intro qs
    exact ⟨(Conc.rel_cgAddN qs h).1, (Conc.rel_cgAddN qs h).2, rfl⟩
  · exact ⟨Conc.rel_spocEff cfg h (.quad TPat.all .none), (Conc.cgQuads_out cfg h (.quad TPat.all .none)).2⟩

theorem conc_cgTriples_snd (cfg : Cfg) (mc : Conc.CMem) (tq : TQ) (c : GArg) :
    (Conc.cgTriples cfg mc tq c).2 = Conc.obsTriples cfg (Conc.cgTriples cfg mc tq c).1 tq.pat (effKey tq c) := by
  simp only [Conc.cgTriples, Conc.obsTriples, pickCtx_key, spocKey_nodefault, effKey]

theorem conc_api_outputs_are_observations : Statement_conc_api_outputs_are_observations := by
  intro cfg mc tq c ch
  refine ⟨?_, ?_, ?_, rfl⟩
  · exact conc_cgTriples_snd cfg mc tq c
  · show (!((Conc.cgTriples cfg (Conc.spocEff cfg mc tq) (.tri tq.pat) (asView (spocKey cfg tq false))).2).isEmpty) =
      Conc.obsContains cfg (Conc.cgTriples cfg (Conc.spocEff cfg mc tq) (.tri tq.pat) (asView (spocKey cfg tq false))).1
        tq.pat tq.garg.key
    rw [conc_cgTriples_snd, effKey_tri_asView, spocKey_nodefault]
    rfl
  · simp only [Conc.cgQuads, Conc.obsQuads, Conc.step, spocKey_nodefault]

theorem mem_cobsChoices {mc : Conc.CMem} {ma : Mem} (h : Conc.Rel mc ma) (cfg : Cfg) (ch : Choice)
    (e : Option Key) (t : Triple) : t ∈ Conc.obsChoices cfg mc ch e ↔ t ∈ obsChoices cfg ma ch e := by
  simp only [Conc.obsChoices, obsChoices, List.mem_flatMap]
  exact exists_congr (fun p => and_congr_right (fun _ => Conc.mem_ctriples h _ _ t))

theorem conc_agree_of {cfg : Cfg} {mc : Conc.CMem} {ma : Mem} {σ : Spec} (h : Conc.Rel mc ma)
    (hS : Sim cfg ma σ) : Conc.Agree cfg mc σ := by
  have hA := agree_of_sim hS
  have hobs := C01.nstoreObsAgree_of h.toSim
  refine
    { noRaise := hobs.no_raise
      quads := fun q => (Conc.mem_cquads h _ _ q).trans (hA.quads q)
      quadsPat := fun pat e q => (Conc.mem_cquads h _ _ q).trans (hA.quadsPat pat e q)
      quadsNodup := fun pat e => Conc.nodup_cquads h pat e
      graphs := fun k => ((Conc.rel_cgGraphs cfg h).2.2 k).trans (hA.graphs k)
      graphsNodup := (Conc.rel_cgGraphs cfg h).2.1
      storeContexts := ?_
      storeContextsNodup := Conc.nodup_storeContexts h
      graphsOf := fun t k => (Conc.mem_cGraphsOf h t k).trans (hA.graphsOf t k)
      graphsOfNodup := Conc.nodup_cGraphsOf h
      view := fun k pat t => ((Conc.vTriples_out h k pat).2 t).trans (hA.view k pat t)
      viewNodup := fun k pat => (Conc.vTriples_out h k pat).1
      viewContains := fun k pat => by rw [Conc.vContains_out h k pat]; exact hA.viewContains k pat
      viewLen := ?_
      triples := fun pat e t => (Conc.mem_ctriples h _ _ t).trans (hA.triples pat e t)
      triplesNodup := fun pat e => Conc.nodup_ctriples h _ _
      contains := ?_
      choices := fun ch e t => (mem_cobsChoices h cfg ch e t).trans (hA.choices ch e t)
      viewChoices := fun k ch t => (Conc.vChoices_out h k ch t).trans (hA.viewChoices k ch t)
      len := ?_
      index := ?_ }
  · intro k
    rw [Conc.mem_storeContexts h, hS.known]
  · intro k
    show mc.len (some k) = ((mc.triplesC TPat.all (some k)).map (·.1)).length
    rw [Conc.ctriples_fst]
    rfl
  · intro pat e
    have hc : (Conc.obsTriples cfg mc pat e).isEmpty = (obsTriples cfg ma pat e).isEmpty :=
      Conc.isEmpty_congr (fun t => Conc.mem_ctriples h pat (resolveCtx cfg e) t)
    have : Conc.obsContains cfg mc pat e = obsContains cfg ma pat e := by
      unfold Conc.obsContains obsContains
      rw [hc]
    rw [this]
    exact hA.contains pat e
  · intro l hnd hl
    refine hobs.len none l hnd ?_
    intro t
    rw [hl, Conc.sees_iff]
    simp only [ctxOk_none, and_true, hS.has]
  · refine ⟨h.wf, fun s p o => ?_⟩
    have := hobs.index s p o
    simp only [Conc.QKof, hS.has] at this
    exact this

theorem conc_refine_history : Statement_conc_refine_history := by
  intro cfg sops
  obtain ⟨e, hR⟩ := conc_reach cfg sops
  have hS := (sim_runS sops (s := (cfg, Mem.empty)) rfl rfl (sim_init cfg)).2.2
  rw [e]
  exact conc_agree_of hR hS

theorem conc_isolation : Statement_conc_isolation := by
  intro cfg sops op
  obtain ⟨e, hR⟩ := conc_reach cfg sops
  simp only
  rw [e]
  generalize (runS (cfg, Mem.empty) sops).1 = c at *
  generalize (runS (cfg, Mem.empty) sops).2 = ma at *
  generalize (Conc.after cfg sops).2 = mc at *
  have hR' := Conc.rel_step c hR op
  refine ⟨?_, ?_, ?_, ?_⟩
  · intro ks hks h hh t
    unfold Conc.content
    rw [Conc.ccontent_iff hR', Conc.ccontent_iff hR]
    exact isolation c ma op ks hks h hh t
  · intro tq eo hk h t
    subst eo
    unfold Conc.content
    rw [Conc.ccontent_iff hR', Conc.ccontent_iff hR]
    exact remove_all_graphs c ma tq hk h t
  · intro h hh hd
    rw [Conc.mem_storeContexts hR', Conc.mem_storeContexts hR]
    exact (registry_isolation.1 c ma op h hh).2 hd
  · intro h hh
    rw [(Conc.rel_cgGraphs c hR').2.2, (Conc.rel_cgGraphs c hR).2.2]
    exact (registry_isolation.1 c ma op h hh).1

theorem conc_shared_triple_survives : Statement_conc_shared_triple_survives := by
  intro cfg sops t g h p
  have hI := conc_isolation cfg sops
  obtain ⟨_, hR⟩ := conc_reach cfg sops
  simp only at hI ⊢
  intro hgh hc
  have hh : h ∉ [g] := by
    simp only [List.mem_singleton]
    exact fun e => hgh e.symm
  have k1 := ((hI (.remove (.quad p (.ident g)))).1 [g] rfl h hh t).mpr hc
  refine ⟨k1, ((hI (.remove (.quad p (.view g)))).1 [g] rfl h hh t).mpr hc,
    ((hI (.vremove g p)).1 [g] rfl h hh t).mpr hc, ((hI (.removeContext g)).1 [g] rfl h hh t).mpr hc,
    ((hI (.removeGraph g)).1 [g] rfl h hh t).mpr hc, ?_⟩
  have hR' := Conc.rel_step (Conc.after cfg sops).1 hR (.remove (.quad p (.ident g)))
  unfold Conc.obsTriples
  rw [Conc.mem_ctriples hR']
  have hu := (union_view { (Conc.after cfg sops).1 with du := true }
    (step (Conc.after cfg sops).1 (runS (cfg, Mem.empty) sops).2 (.remove (.quad p (.ident g)))) TPat.all).1 t
  rw [if_pos rfl] at hu
  exact hu.mpr ⟨matches_all t, h, (Conc.ccontent_iff hR' h t).mp k1⟩

theorem eq_nil_of_mem_iff {α : Type} {l1 l2 : List α} (h : ∀ x, x ∈ l1 ↔ x ∈ l2) (e : l2 = []) : l1 = [] := by
  apply List.eq_nil_iff_forall_not_mem.mpr
  intro x hx
  have := (h x).mp hx
  rw [e] at this
  exact absurd this List.not_mem_nil

theorem conc_union_view_and_empty : Statement_conc_union_view_and_empty := by
  intro cfg sops
  obtain ⟨e, hR⟩ := conc_reach cfg sops
  have hU := (union_of_registered_graphs cfg sops).1
  simp only at hU ⊢
  rw [e]
  generalize (runS (cfg, Mem.empty) sops).1 = c at *
  generalize (runS (cfg, Mem.empty) sops).2 = ma at *
  generalize (Conc.after cfg sops).2 = mc at *
  refine ⟨?_, ?_, ?_, ?_⟩
  · intro pat t
    unfold Conc.obsTriples
    rw [Conc.mem_ctriples hR]
    have := hU pat t
    unfold obsTriples at this
    rw [this]
    refine and_congr_right (fun _ => ?_)
    by_cases hdu : c.du = true
    · simp only [hdu, if_true]
      refine exists_congr (fun k => ?_)
      rw [(Conc.rel_cgGraphs c hR).2.2]
      unfold Conc.content
      rw [Conc.ccontent_iff hR]
      rfl
    · simp only [hdu, if_false, Bool.false_eq_true]
      unfold Conc.content
      rw [Conc.ccontent_iff hR]
  · intro pat
    exact Conc.nodup_ctriples hR _ _
  · intro tq g k hk
    have hE := empty_or_unknown_is_empty c ma tq g k hk
    refine ⟨?_, ?_, ?_⟩
    · intro he hc
      refine eq_nil_of_mem_iff (Conc.cgTriples_out c hR tq g).2 (hE.1 he ?_)
      intro t ht
      exact hc t ((Conc.ccontent_iff (Conc.rel_cgTriples c hR tq g) k t).mpr ht)
    · intro he hc
      rw [Conc.cgContains_out c hR tq]
      refine hE.2.1 he ?_
      intro t ht
      exact hc t ((Conc.ccontent_iff (Conc.rel_cgContains c hR tq) k t).mpr ht)
    · intro he hc
      refine eq_nil_of_mem_iff (Conc.cgQuads_out c hR tq).2 (hE.2.2 he ?_)
      intro t ht
      exact hc t ((Conc.ccontent_iff (Conc.rel_spocEff c hR tq) k t).mpr ht)
  · intro ch g k hk hc
    refine eq_nil_of_mem_iff (Conc.cgChoices_out c hR ch g) ((triples_choices c ma ch g).2.2.1 k hk ?_)
    intro t ht
    exact hc t ((Conc.ccontent_iff (Conc.rel_graphEff c hR g) k t).mpr ht)

/-- glue: what `add((s,p,o,k))` with an identifier does to the content of the graphs -/
theorem content_add_ident (cfg : Cfg) (m : Mem) (t : Triple) (k h : Key) (t' : Triple) :
    content (step cfg m (.add t (some (.ident k)))) h t' ↔ ((h = k ∧ t' = t) ∨ content m h t') := by
  rw [content_iff, content_iff]
  simp only [step, cgAdd, spocEff, graphEff, spocKey, GArg.key, Mem.add, mem_sinsert, Prod.mk.injEq]
  constructor
  · rintro (⟨e1, e2⟩ | e)
    · exact Or.inl ⟨e2, e1⟩
    · exact Or.inr e
  · rintro (⟨e1, e2⟩ | e)
    · exact Or.inl ⟨e2, e1⟩
    · exact Or.inr e

theorem conc_graph_lifecycle : Statement_conc_graph_lifecycle := by
  intro cfg sops k
  obtain ⟨e, hR⟩ := conc_reach cfg sops
  simp only
  rw [e]
  generalize (runS (cfg, Mem.empty) sops).1 = c at *
  generalize (runS (cfg, Mem.empty) sops).2 = ma at *
  generalize (Conc.after cfg sops).2 = mc at *
  intro hd
  refine ⟨?_, ?_⟩
  · have hR1 := Conc.rel_step c hR (.removeGraph k)
    obtain ⟨a1, a2, a3, a4⟩ := remove_graph_spec c ma k hd
    have hg : ∀ h m1 m2, Conc.Rel m1 m2 → (h ∈ (Conc.cgGraphs c m1).2 ↔ h ∈ (cgGraphs c m2).2) :=
      fun h m1 m2 r => (Conc.rel_cgGraphs c r).2.2 h
    refine ⟨?_, ?_, ?_, ?_, ?_, ?_, ?_⟩
    · intro t ht
      exact a1 t ((Conc.ccontent_iff hR1 k t).mp ht)
    · intro h hh t
      unfold Conc.content
      rw [Conc.ccontent_iff hR1, Conc.ccontent_iff hR]
      exact a2 h hh t
    · intro hk
      refine ⟨?_, fun hm => a3 hk ((hg _ _ _ hR1).mp hm)⟩
      intro hm
      have h1 := (Conc.mem_storeContexts hR1 k).mp hm
      apply a3 hk
      simp only [cgGraphs, mem_touch_allc]
      exact Or.inl h1
    · rw [hg _ _ _ hR1]
      exact default_always_exists c _ hd
    · intro h hh
      rw [hg _ _ _ hR1, hg _ _ _ hR]
      exact a4 h hh
    · intro t t'
      unfold Conc.content
      rw [Conc.ccontent_iff (Conc.rel_step c hR1 _), content_add_ident]
      constructor
      · rintro (⟨_, e2⟩ | e2)
        · exact e2
        · exact absurd e2 (a1 t')
      · intro e2; exact Or.inl ⟨rfl, e2⟩
    · intro t
      rw [hg _ _ _ (Conc.rel_step c hR1 _)]
      simp only [cgGraphs, mem_touch_allc]
      left
      simp only [step, cgAdd, spocEff, graphEff, spocKey, GArg.key, Mem.add, mem_sinsert, true_or]
  · intro hk hc
    have hR1 : Conc.Rel (Conc.dsGraphFresh c mc k) (dsGraph c ma (.ident k)) := Conc.rel_dsGraph c hR (.ident k)
    have hq : (dsGraph c ma (.ident k)).qs = ma.qs := rfl
    have hal : ∀ h, h ∈ (dsGraph c ma (.ident k)).allc ↔ (h = k ∨ h ∈ ma.allc) := by
      intro h
      simp only [dsGraph, GArg.key, graphEff, Mem.addGraph, mem_sinsert]
    have hcont : ∀ h t, Conc.content (Conc.dsGraphFresh c mc k) h t ↔ Conc.content mc h t := by
      intro h t
      unfold Conc.content
      rw [Conc.ccontent_iff hR1, Conc.ccontent_iff hR, content_iff, content_iff, hq]
    refine ⟨?_, ?_, ?_, hcont, ?_⟩
    · rw [Conc.mem_storeContexts hR1, hal]; exact Or.inl rfl
    · rw [(Conc.rel_cgGraphs c hR1).2.2]
      simp only [mem_touch_allc, hal, true_or]
    · intro t ht
      exact hc t ((hcont k t).mp ht)
    · intro h hh
      rw [Conc.mem_storeContexts hR1, Conc.mem_storeContexts hR, hal]
      simp only [hh, false_or]

theorem conc_remove_graph_none : Statement_conc_remove_graph_none := by
  intro cfg sops k
  obtain ⟨e, hR⟩ := conc_reach cfg sops
  simp only
  rw [e]
  generalize (runS (cfg, Mem.empty) sops).1 = c at *
  generalize (runS (cfg, Mem.empty) sops).2 = ma at *
  generalize (Conc.after cfg sops).2 = mc at *
  intro hk hc hd
  have hR1 : Conc.Rel (Conc.dsRemoveGraphNone c mc k) (dsRemoveGraph c ma k) := Conc.rel_dsRemoveGraph c hR k
  have hk' : k ∉ ma.allc := fun h => hk ((Conc.mem_storeContexts hR k).mpr h)
  have hc' : ∀ t, (t, k) ∉ ma.qs := fun t h => hc t ((Conc.ccontent_iff hR k t).mpr (content_iff.mpr h))
  have hq : ∀ t h, (t, h) ∈ (dsRemoveGraph c ma k).qs ↔ (t, h) ∈ ma.qs := by
    intro t h
    simp only [dsRemoveGraph, hd, if_false, Mem.removeGraph, Mem.remove, mem_removeQ, matches_all, ctxOk_some, true_and]
    constructor
    · exact fun x => x.1
    · intro x
      refine ⟨x, fun e => ?_⟩
      rw [e] at x
      exact hc' t x
  have hal : ∀ h, h ∈ (dsRemoveGraph c ma k).allc ↔ h ∈ ma.allc := by
    intro h
    simp only [dsRemoveGraph, hd, if_false, Mem.removeGraph, mem_sremove]
    constructor
    · exact fun x => x.2
    · intro x
      refine ⟨fun e => ?_, x⟩
      rw [e] at x
      exact hk' x
  refine ⟨?_, ?_, ?_, hR1.err⟩
  · intro h t
    unfold Conc.content
    rw [Conc.ccontent_iff hR1, Conc.ccontent_iff hR, content_iff, content_iff, hq]
  · intro h
    rw [Conc.mem_storeContexts hR1, Conc.mem_storeContexts hR, hal]
  · intro h
    rw [(Conc.rel_cgGraphs c hR1).2.2, (Conc.rel_cgGraphs c hR).2.2]
    simp only [mem_touch_allc, hal]

/-! ### Non-vacuity: the history of `Props.lean` (`exSOps`: shared triple, created-but-empty graph 95,
    unknown graph 94, a foreign Graph argument, removals, remove_graph, three `default_union` switches)
    run over the concrete store -/

example : (Conc.after exDs exSOps).1.du = true ∧ (Conc.after exDs exSOps).2.cx.err = false ∧
    (Conc.after exDs exSOps).2.ispo = [(1, [(10, [20])]), (2, [(10, [21])]), (3, [(11, [])]), (7, [(7, [])])] ∧
    (Conc.obsQuads (Conc.after exDs exSOps).2 TPat.all none) = [((1, 10, 20), 99), ((1, 10, 20), 91), ((2, 10, 21), 91)] ∧
    Conc.storeContexts (Conc.after exDs exSOps).2 = [95, 99, 90, 91, 93] ∧
    Conc.cgLen (Conc.after exDs exSOps).2 = 2 ∧
    (Conc.cgTriples (Conc.after exDs exSOps).1 (Conc.after exDs exSOps).2 .nil (.view 95)).2 = [] ∧
    (Conc.cgContains (Conc.after exDs exSOps).1 (Conc.after exDs exSOps).2 (.quad (some 1, some 10, some 20) (.ident 94))).2 = false ∧
    (Conc.cgContains (Conc.after exDs exSOps).1 (Conc.after exDs exSOps).2 (.quad (some 1, some 10, some 20) (.ident 91))).2 = true := by
  decide
-- the context bookkeeping is really exercised: a default context set and two explicit (uncompressed) entries
example : (Conc.after exDs exSOps).2.cx.dflt = some [some 99, none] ∧ (Conc.after exDs exSOps).2.cx.tctx.length = 2 := by decide
-- the hypothesis of `conc_shared_triple_survives` is met: (1,10,20) is held by graphs 99 and 91
example : (1, 10, 20) ∈ Conc.vTriples (Conc.after exDs exSOps).2 91 TPat.all ∧
    (1, 10, 20) ∈ Conc.vTriples (Conc.after exDs exSOps).2 99 TPat.all := by decide
-- remove_graph 91 then re-add: only the new triple; a fresh name 77
example : Conc.vTriples (Conc.step exDs (Conc.step exDs (Conc.after exDs exSOps).2 (.removeGraph 91))
    (.add (3, 11, 22) (some (.ident 91)))) 91 TPat.all = [(3, 11, 22)] ∧
    Conc.storeContexts (Conc.dsGraphFresh exDs (Conc.after exDs exSOps).2 77) = [95, 99, 90, 91, 93, 77] := by decide

-- remove_graph(None) (fresh name 301): nothing changes, the default graph keeps its triple
example : Conc.vTriples (Conc.dsRemoveGraphNone exDs (Conc.after exDs exSOps).2 301) 99 TPat.all = [(1, 10, 20)] ∧
    Conc.storeContexts (Conc.dsRemoveGraphNone exDs (Conc.after exDs exSOps).2 301) = [95, 99, 90, 91, 93] := by decide

end RV.C02
