import RV.C02.Model
/-
  C02 helper lemmas: what each model function means in terms of membership in
  `qs` (asserted (triple, graph) pairs) and `allc` (registered graphs); the
  well-formedness invariant of the store and its preservation.
-/
namespace RV.C02

/-! ### list-level helpers -/

theorem mem_removeQ {pat : TPat} {ctx : Option Key} {qs : List Quad} {q : Quad} :
    q ∈ removeQ pat ctx qs ↔ q ∈ qs ∧ ¬(pat.matches q.1 = true ∧ ctxOk ctx q.2 = true) := by
  induction qs with
  | nil => simp [removeQ]
  | cons x r ih =>
    obtain ⟨t, c⟩ := x
    unfold removeQ
    by_cases h : (pat.matches t && ctxOk ctx c) = true
    · rw [if_pos h, ih]
      simp only [Bool.and_eq_true] at h
      constructor
      · rintro ⟨h1, h2⟩; exact ⟨List.mem_cons_of_mem _ h1, h2⟩
      · rintro ⟨h1, h2⟩
        rcases List.mem_cons.mp h1 with e | e
        · subst e; exact absurd h h2
        · exact ⟨e, h2⟩
    · rw [if_neg h, List.mem_cons, ih]
      simp only [Bool.and_eq_true] at h
      constructor
      · rintro (e | ⟨h1, h2⟩)
        · subst e; exact ⟨List.mem_cons_self, h⟩
        · exact ⟨List.mem_cons_of_mem _ h1, h2⟩
      · rintro ⟨h1, h2⟩
        rcases List.mem_cons.mp h1 with e | e
        · exact Or.inl e
        · exact Or.inr ⟨e, h2⟩

theorem nodup_removeQ {pat : TPat} {ctx : Option Key} {qs : List Quad} (h : qs.Nodup) :
    (removeQ pat ctx qs).Nodup := by
  induction qs with
  | nil => simp [removeQ]
  | cons x r ih =>
    obtain ⟨t, c⟩ := x
    rw [List.nodup_cons] at h
    unfold removeQ
    split
    · exact ih h.2
    · rw [List.nodup_cons]
      exact ⟨fun hm => h.1 (mem_removeQ.mp hm).1, ih h.2⟩

theorem mem_ctxsOf {t : Triple} {qs : List Quad} {c : Key} : c ∈ ctxsOf t qs ↔ (t, c) ∈ qs := by
  induction qs with
  | nil => simp [ctxsOf]
  | cons x r ih =>
    obtain ⟨t', c'⟩ := x
    unfold ctxsOf
    by_cases h : t' = t
    · subst h
      rw [if_pos rfl, List.mem_cons, List.mem_cons, ih]
      constructor
      · rintro (e | e)
        · exact Or.inl (by rw [e])
        · exact Or.inr e
      · rintro (e | e)
        · exact Or.inl (by injection e)
        · exact Or.inr e
    · rw [if_neg h, ih, List.mem_cons]
      constructor
      · exact Or.inr
      · rintro (e | e)
        · exact absurd (by injection e with e1 _; exact e1.symm) h
        · exact e

theorem nodup_ctxsOf {t : Triple} {qs : List Quad} (h : qs.Nodup) : (ctxsOf t qs).Nodup := by
  induction qs with
  | nil => simp [ctxsOf]
  | cons x r ih =>
    obtain ⟨t', c'⟩ := x
    rw [List.nodup_cons] at h
    unfold ctxsOf
    split
    · next e =>
      subst e
      rw [List.nodup_cons]
      exact ⟨fun hm => h.1 (mem_ctxsOf.mp hm), ih h.2⟩
    · exact ih h.2

theorem mem_selTriples {pat : TPat} {ctx : Option Key} {qs : List Quad} {t : Triple} :
    t ∈ selTriples pat ctx qs ↔ pat.matches t = true ∧ ∃ c, (t, c) ∈ qs ∧ ctxOk ctx c = true := by
  induction qs with
  | nil => simp [selTriples]
  | cons x r ih =>
    obtain ⟨t', c'⟩ := x
    unfold selTriples
    by_cases h : (pat.matches t' && ctxOk ctx c') = true
    · rw [if_pos h]
      simp only [Bool.and_eq_true] at h
      have key : t ∈ (if t' ∈ selTriples pat ctx r then selTriples pat ctx r else t' :: selTriples pat ctx r)
          ↔ t = t' ∨ t ∈ selTriples pat ctx r := by
        split
        · next hm =>
          constructor
          · exact Or.inr
          · rintro (e | e)
            · subst e; exact hm
            · exact e
        · exact List.mem_cons
      rw [key, ih]
      constructor
      · rintro (e | ⟨h1, c, h2, h3⟩)
        · subst e; exact ⟨h.1, c', List.mem_cons_self, h.2⟩
        · exact ⟨h1, c, List.mem_cons_of_mem _ h2, h3⟩
      · rintro ⟨h1, c, h2, h3⟩
        rcases List.mem_cons.mp h2 with e | e
        · left; injection e
        · exact Or.inr ⟨h1, c, e, h3⟩
    · rw [if_neg h, ih]
      simp only [Bool.and_eq_true] at h
      constructor
      · rintro ⟨h1, c, h2, h3⟩
        exact ⟨h1, c, List.mem_cons_of_mem _ h2, h3⟩
      · rintro ⟨h1, c, h2, h3⟩
        rcases List.mem_cons.mp h2 with e | e
        · injection e with e1 e2
          subst e1; subst e2
          exact absurd ⟨h1, h3⟩ h
        · exact ⟨h1, c, e, h3⟩

theorem nodup_selTriples (pat : TPat) (ctx : Option Key) (qs : List Quad) :
    (selTriples pat ctx qs).Nodup := by
  induction qs with
  | nil => simp [selTriples]
  | cons x r ih =>
    obtain ⟨t', c'⟩ := x
    unfold selTriples
    split
    · split
      · exact ih
      · next hm => exact List.nodup_cons.mpr ⟨hm, ih⟩
    · exact ih

theorem mem_expandCtxs {l : List (Triple × List Key)} {q : Quad} :
    q ∈ expandCtxs l ↔ ∃ cs, (q.1, cs) ∈ l ∧ q.2 ∈ cs := by
  induction l with
  | nil => simp [expandCtxs]
  | cons x r ih =>
    obtain ⟨t, cs⟩ := x
    obtain ⟨qt, qc⟩ := q
    simp only [expandCtxs, List.mem_append, List.mem_map, ih, List.mem_cons, Prod.mk.injEq]
    constructor
    · rintro (⟨c, h1, h2, h3⟩ | ⟨cs', h1, h2⟩)
      · subst h2; subst h3; exact ⟨cs, Or.inl ⟨rfl, rfl⟩, h1⟩
      · exact ⟨cs', Or.inr h1, h2⟩
    · rintro ⟨cs', (⟨h1, h2⟩ | h1), h3⟩
      · subst h1; subst h2; exact Or.inl ⟨qc, h3, rfl, rfl⟩
      · exact Or.inr ⟨cs', h1, h3⟩

theorem nodup_expandCtxs {l : List (Triple × List Key)} (h1 : (l.map (·.1)).Nodup)
    (h2 : ∀ x ∈ l, x.2.Nodup) : (expandCtxs l).Nodup := by
  induction l with
  | nil => simp [expandCtxs]
  | cons x r ih =>
    obtain ⟨t, cs⟩ := x
    simp only [List.map_cons, List.nodup_cons] at h1
    simp only [expandCtxs]
    rw [List.nodup_append]
    refine ⟨?_, ih h1.2 (fun x hx => h2 x (List.mem_cons_of_mem _ hx)), ?_⟩
    · have h3 : cs.Nodup := h2 (t, cs) List.mem_cons_self
      simp only [List.Nodup, List.pairwise_map] at h3 ⊢
      exact h3.imp (fun hab e => hab (by injection e))
    · intro a ha b hb e
      subst e
      obtain ⟨c, _, hc⟩ := List.mem_map.mp ha
      obtain ⟨cs', h3, _⟩ := mem_expandCtxs.mp hb
      apply h1.1
      rw [List.mem_map]
      refine ⟨(a.1, cs'), h3, ?_⟩
      rw [← hc]

theorem matches_all (t : Triple) : TPat.all.matches t = true := rfl

theorem matches_of {t t' : Triple} : (TPat.of t).matches t' = true ↔ t' = t := by
  obtain ⟨a, b, c⟩ := t
  obtain ⟨a', b', c'⟩ := t'
  simp [TPat.of, TPat.matches, matchPos]
  constructor
  · rintro ⟨⟨h1, h2⟩, h3⟩; exact ⟨h1, h2, h3⟩
  · rintro ⟨h1, h2, h3⟩; exact ⟨⟨h1, h2⟩, h3⟩

theorem ctxOk_none (c : Key) : ctxOk none c = true := rfl
theorem ctxOk_some {k c : Key} : ctxOk (some k) c = true ↔ c = k := by simp [ctxOk]

/-! ### observations of the store -/

/-- the triples a store read yields -/
theorem mem_triples_fst {m : Mem} {pat : TPat} {ctx : Option Key} {t : Triple} :
    t ∈ (m.triples pat ctx).map (·.1) ↔
      pat.matches t = true ∧ ∃ c, (t, c) ∈ m.qs ∧ ctxOk ctx c = true := by
  simp only [Mem.triples, List.map_map, Function.comp_def, List.map_id']
  exact mem_selTriples

theorem triples_fst_eq (m : Mem) (pat : TPat) (ctx : Option Key) :
    (m.triples pat ctx).map (·.1) = selTriples pat ctx m.qs := by
  simp only [Mem.triples, List.map_map, Function.comp_def, List.map_id']

theorem mem_quads_of_triples {m : Mem} {pat : TPat} {ctx : Option Key} {q : Quad} :
    q ∈ expandCtxs (m.triples pat ctx) ↔
      q ∈ m.qs ∧ pat.matches q.1 = true ∧ ∃ c, (q.1, c) ∈ m.qs ∧ ctxOk ctx c = true := by
  obtain ⟨t, k⟩ := q
  rw [mem_expandCtxs]
  simp only [Mem.triples, List.mem_map]
  constructor
  · rintro ⟨cs, ⟨t', h1, h2⟩, h3⟩
    injection h2 with e1 e2
    subst e1; subst e2
    exact ⟨mem_ctxsOf.mp h3, mem_selTriples.mp h1⟩
  · rintro ⟨h1, h2⟩
    exact ⟨ctxsOf t m.qs, ⟨t, mem_selTriples.mpr h2, rfl⟩, mem_ctxsOf.mpr h1⟩

/-! ### well-formed stores -/

structure WF (m : Mem) : Prop where
  qs : m.qs.Nodup
  allc : m.allc.Nodup
  reg : ∀ q ∈ m.qs, q.2 ∈ m.allc

theorem WF.empty : WF Mem.empty := ⟨List.nodup_nil, List.nodup_nil, by simp [Mem.empty]⟩

theorem WF.add {m : Mem} (h : WF m) (t : Triple) (k : Key) : WF (m.add t k) := by
  refine ⟨nodup_sinsert h.qs, nodup_sinsert h.allc, ?_⟩
  intro q hq
  simp only [Mem.add, mem_sinsert] at hq ⊢
  rcases hq with e | e
  · subst e; exact Or.inl rfl
  · exact Or.inr (h.reg q e)

theorem WF.remove {m : Mem} (h : WF m) (pat : TPat) (ctx : Option Key) : WF (m.remove pat ctx) :=
  ⟨nodup_removeQ h.qs, h.allc, fun q hq => h.reg q (mem_removeQ.mp hq).1⟩

theorem WF.addGraph {m : Mem} (h : WF m) (k : Key) : WF (m.addGraph k) :=
  ⟨h.qs, nodup_sinsert h.allc, fun q hq => mem_sinsert.mpr (Or.inr (h.reg q hq))⟩

theorem WF.removeGraph {m : Mem} (h : WF m) (k : Key) : WF (m.removeGraph k) := by
  refine ⟨nodup_removeQ h.qs, nodup_sremove h.allc, ?_⟩
  intro q hq
  simp only [Mem.removeGraph, Mem.remove] at hq ⊢
  have := mem_removeQ.mp hq
  refine mem_sremove.mpr ⟨?_, h.reg q this.1⟩
  intro e
  exact this.2 ⟨matches_all _, ctxOk_some.mpr e⟩

theorem WF.addAll {m : Mem} (h : WF m) (k : Key) (ts : List Triple) : WF (m.addAll k ts) := by
  induction ts generalizing m with
  | nil => exact h
  | cons t ts ih => exact ih (h.add t k)

theorem mem_addAll_qs {m : Mem} {k : Key} {ts : List Triple} {q : Quad} :
    q ∈ (m.addAll k ts).qs ↔ q ∈ m.qs ∨ (q.2 = k ∧ q.1 ∈ ts) := by
  induction ts generalizing m with
  | nil => simp [Mem.addAll]
  | cons t ts ih =>
    simp only [Mem.addAll, ih, Mem.add, mem_sinsert, List.mem_cons]
    obtain ⟨qt, qk⟩ := q
    constructor
    · rintro ((e | e) | ⟨e1, e2⟩)
      · injection e with e1 e2; exact Or.inr ⟨e2, Or.inl e1⟩
      · exact Or.inl e
      · exact Or.inr ⟨e1, Or.inr e2⟩
    · rintro (e | ⟨e1, (e2 | e2)⟩)
      · exact Or.inl (Or.inr e)
      · simp only at e1 e2; subst e1; subst e2; exact Or.inl (Or.inl rfl)
      · exact Or.inr ⟨e1, e2⟩

theorem mem_addAll_allc {m : Mem} {k : Key} {ts : List Triple} {c : Key} :
    c ∈ (m.addAll k ts).allc ↔ c ∈ m.allc ∨ (c = k ∧ ts ≠ []) := by
  induction ts generalizing m with
  | nil => simp [Mem.addAll]
  | cons t ts ih =>
    simp only [Mem.addAll, ih, Mem.add, mem_sinsert]
    constructor
    · rintro ((e | e) | ⟨e1, _⟩)
      · exact Or.inr ⟨e, by simp⟩
      · exact Or.inl e
      · exact Or.inr ⟨e1, by simp⟩
    · rintro (e | ⟨e1, _⟩)
      · exact Or.inl (Or.inr e)
      · exact Or.inl (Or.inl e1)

theorem WF.touch {m : Mem} (h : WF m) (cfg : Cfg) : WF (touch cfg m) := by
  unfold RV.C02.touch
  split
  · exact h.addGraph _
  · exact h

theorem touch_qs (cfg : Cfg) (m : Mem) : (touch cfg m).qs = m.qs := by
  unfold touch; split <;> rfl

theorem mem_touch_allc {cfg : Cfg} {m : Mem} {c : Key} :
    c ∈ (touch cfg m).allc ↔ c ∈ m.allc ∨ (cfg.isDs = true ∧ c = cfg.dflt) := by
  unfold touch
  split
  · next h => simp [Mem.addGraph, mem_sinsert, h, or_comm]
  · next h => simp [h]

/-! ### `_graph` -/

/-- the pairs a graph argument brings with it (a Graph object of another store is merged) -/
def GArg.adds : GArg → List Quad
  | .foreign k ts => ts.map (fun t => (t, k))
  | _ => []

/-- the argument is a `Graph` object of another store (→ `get_graph` is consulted) -/
def GArg.isObj : GArg → Bool
  | .foreign _ _ => true
  | _ => false

theorem WF.graphEff {m : Mem} (h : WF m) (cfg : Cfg) (g : GArg) : WF (graphEff cfg m g) := by
  cases g with
  | none => exact h
  | ident k => exact h
  | view k => exact h
  | foreign k ts => exact (h.touch cfg).addAll _ _

theorem mem_graphEff_qs {cfg : Cfg} {m : Mem} {g : GArg} {q : Quad} :
    q ∈ (graphEff cfg m g).qs ↔ q ∈ m.qs ∨ q ∈ g.adds := by
  obtain ⟨qt, qk⟩ := q
  cases g with
  | none => simp [graphEff, GArg.adds]
  | ident k => simp [graphEff, GArg.adds]
  | view k => simp [graphEff, GArg.adds]
  | foreign k ts =>
    simp only [graphEff, mem_addAll_qs, touch_qs, GArg.adds, List.mem_map, Prod.mk.injEq]
    constructor
    · rintro (e | ⟨e1, e2⟩)
      · exact Or.inl e
      · exact Or.inr ⟨qt, e2, rfl, e1.symm⟩
    · rintro (e | ⟨t, e1, e2, e3⟩)
      · exact Or.inl e
      · subst e2; exact Or.inr ⟨e3.symm, e1⟩

theorem mem_graphEff_allc {cfg : Cfg} {m : Mem} {g : GArg} {c : Key} :
    c ∈ (graphEff cfg m g).allc ↔
      c ∈ m.allc ∨ (g.isObj = true ∧ cfg.isDs = true ∧ c = cfg.dflt) ∨ (∃ t, (t, c) ∈ g.adds) := by
  cases g with
  | none => simp [graphEff, GArg.adds, GArg.isObj]
  | ident k => simp [graphEff, GArg.adds, GArg.isObj]
  | view k => simp [graphEff, GArg.adds, GArg.isObj]
  | foreign k ts =>
    simp only [graphEff, mem_addAll_allc, mem_touch_allc, GArg.adds, GArg.isObj, List.mem_map,
      Prod.mk.injEq, true_and]
    constructor
    · rintro ((e | e) | ⟨e1, e2⟩)
      · exact Or.inl e
      · exact Or.inr (Or.inl e)
      · obtain ⟨t, ht⟩ := List.exists_mem_of_ne_nil _ e2
        exact Or.inr (Or.inr ⟨t, t, ht, rfl, e1.symm⟩)
    · rintro (e | e | ⟨t, t', h1, _, h3⟩)
      · exact Or.inl (Or.inl e)
      · exact Or.inl (Or.inr e)
      · exact Or.inr ⟨h3.symm, List.ne_nil_of_mem h1⟩

/-- state after `_spoc(tq)`: the effect of the quad's graph argument, if any -/
def TQ.garg : TQ → GArg
  | .quad _ g => g
  | _ => .none

theorem spocEff_eq (cfg : Cfg) (m : Mem) (tq : TQ) : spocEff cfg m tq = graphEff cfg m tq.garg := by
  cases tq <;> rfl

/-- with `default=True`, `_spoc` always names a graph (after C02-F2) -/
theorem spocKey_default (cfg : Cfg) (tq : TQ) :
    spocKey cfg tq true = some (tq.garg.key.getD cfg.dflt) := by
  cases tq with
  | nil => rfl
  | tri p => rfl
  | quad p g =>
    simp only [spocKey, TQ.garg]
    cases g.key <;> rfl

theorem spocKey_nodefault (cfg : Cfg) (tq : TQ) : spocKey cfg tq false = tq.garg.key := by
  cases tq with
  | nil => rfl
  | tri p => rfl
  | quad p g =>
    simp only [spocKey, TQ.garg]
    cases g.key <;> rfl

theorem asView_key (c : Option Key) : (asView c).key = c := by
  cases c <;> rfl

theorem asView_adds (c : Option Key) : (asView c).adds = [] := by
  cases c <;> rfl

/-- the graph a `triples` call is restricted to: the `context` argument wins -/
def effKey (tq : TQ) (context : GArg) : Option Key :=
  match context.key with
  | some k => some k
  | none => tq.garg.key

theorem pickCtx_key (context : GArg) (c : Option Key) :
    (pickCtx context c).key = (match context.key with
                                | some k => some k
                                | none => c) := by
  cases context with
  | none => simp only [pickCtx, GArg.key]; exact asView_key c
  | ident k => rfl
  | view k => rfl
  | foreign k ts => rfl

theorem pickCtx_adds (context : GArg) (c : Option Key) : (pickCtx context c).adds = context.adds := by
  cases context with
  | none => simp only [pickCtx, GArg.adds]; exact asView_adds c
  | ident k => rfl
  | view k => rfl
  | foreign k ts => rfl

/-! ### which graphs an argument / an operation can change -/

theorem adds_key {g : GArg} {q : Quad} (h : q ∈ g.adds) : g.key = some q.2 := by
  cases g with
  | none => simp [GArg.adds] at h
  | ident k => simp [GArg.adds] at h
  | view k => simp [GArg.adds] at h
  | foreign k ts =>
    simp only [GArg.adds, List.mem_map] at h
    obtain ⟨t, _, rfl⟩ := h
    rfl

theorem adds_nil_of_key_none {g : GArg} (h : g.key = none) : g.adds = [] := by
  cases g with
  | none => rfl
  | ident k => rfl
  | view k => rfl
  | foreign k ts => simp [GArg.key] at h

theorem cgAddN_qs_other {cfg : Cfg} (qs : List (Triple × GArg)) :
    ∀ (m : Mem) (t : Triple) (h : Key), h ∉ qs.filterMap (·.2.key) →
      ((t, h) ∈ (cgAddN cfg m qs).1.qs ↔ (t, h) ∈ m.qs) := by
  induction qs with
  | nil => intro m t h _; rfl
  | cons x r ih =>
    intro m t h hh
    obtain ⟨t0, g⟩ := x
    simp only [cgAddN]
    cases hk : g.key with
    | none =>
      simp only [mem_graphEff_qs, adds_nil_of_key_none hk, List.not_mem_nil, or_false]
    | some k =>
      simp only [List.filterMap_cons, hk, List.mem_cons, not_or] at hh
      simp only
      rw [ih _ t h hh.2]
      simp only [Mem.add, mem_sinsert, mem_graphEff_qs, Prod.mk.injEq]
      constructor
      · rintro (⟨_, e⟩ | e | e)
        · exact absurd e hh.1
        · exact e
        · have := adds_key e
          rw [hk] at this
          injection this with this
          exact absurd this.symm hh.1
      · intro e; exact Or.inr (Or.inl e)

theorem selTriples_nil {pat : TPat} {k : Key} {qs : List Quad} (h : ∀ t, (t, k) ∉ qs) :
    selTriples pat (some k) qs = [] := by
  apply List.eq_nil_iff_forall_not_mem.mpr
  intro t ht
  obtain ⟨_, c, h1, h2⟩ := mem_selTriples.mp ht
  rw [ctxOk_some.mp h2] at h1
  exact h t h1

theorem resolveCtx_some {cfg : Cfg} {k : Key} (h : ¬(cfg.du = true ∧ k = cfg.dflt)) :
    resolveCtx cfg (some k) = some k := by
  unfold resolveCtx
  by_cases hdu : cfg.du = true
  · have : ¬ (some k = some cfg.dflt) := fun e => h ⟨hdu, by injection e⟩
    simp [hdu, this]
  · simp [hdu]

theorem resolveCtx_none (cfg : Cfg) :
    resolveCtx cfg none = if cfg.du = true then none else some cfg.dflt := by
  unfold resolveCtx
  by_cases hdu : cfg.du = true <;> simp [hdu]

theorem resolveCtx_dflt_du {cfg : Cfg} (h : cfg.du = true) : resolveCtx cfg (some cfg.dflt) = none := by
  simp [resolveCtx, h]

end RV.C02
