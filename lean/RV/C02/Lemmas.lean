import RV.C02.Model
namespace RV.C02

/-- with `default=True`, `_spoc` always names a graph (after C02-F2) -/
theorem spocKey_default_isSome (cfg : Cfg) (tq : TQ) : ∃ k, spocKey cfg tq true = some k := by
  cases tq with
  | nil => exact ⟨_, rfl⟩
  | tri p => exact ⟨_, rfl⟩
  | quad p g =>
    simp only [spocKey]
    split
    · exact ⟨_, rfl⟩
    · exact ⟨_, rfl⟩

end RV.C02
