import RV.C01.Props
import RV.C02.Props
import RV.C02.Conc
/-
  C02 round g — helper lemmas for the composition with C01.

  `Rel mc ma`: the concrete `Memory` model `mc` (C01's `NMem`: three NESTED-dictionary indexes, context
  compression, `__contextTriples`, `__all_contexts`) represents the abstract store `ma` (C02: set of quads +
  set of registered graphs).  It is C01's simulation relation `NSim` (dictionaries well formed + `StSim` of the
  flattening) read with `Q = (· ∈ ma.qs)`, `K = (· ∈ ma.allc)`; every store call is transported with C01's
  `nsim_step`, every store answer with C01's `nstoreObsAgree_of` (round g used the flat `StSim` / `stSim_step`).
-/
namespace RV.C02.Conc
open RV RV.C02

def QKof (ma : Mem) : C01.QK := ⟨fun t g => (t, g) ∈ ma.qs, fun k => k ∈ ma.allc⟩

structure Rel (mc : CMem) (ma : Mem) : Prop where
  /-- every level of the three nested dictionaries has unique keys -/
  wf : C01.NWF mc
  /-- C01's representation invariant on the flattened indexes + context bookkeeping -/
  inv : C01.Inv mc.toMem
  nd : mc.toMem.allc.Nodup
  q : ∀ t g, C01.abs mc.toMem t g ↔ (t, g) ∈ ma.qs
  k : ∀ k, k ∈ mc.toMem.allc ↔ k ∈ ma.allc

theorem Rel.toSim {mc : CMem} {ma : Mem} (h : Rel mc ma) : C01.NSim mc (QKof ma) :=
  ⟨h.wf, ⟨h.inv, h.nd, h.q, h.k⟩⟩

theorem rel_of_sim {mc : CMem} {S : C01.QK} {ma : Mem} (h : C01.NSim mc S)
    (hq : ∀ t g, S.Q t g ↔ (t, g) ∈ ma.qs) (hk : ∀ k, S.K k ↔ k ∈ ma.allc) : Rel mc ma :=
  ⟨h.wf, h.sim.inv, h.sim.nd, fun t g => (h.sim.q t g).trans (hq t g), fun k => (h.sim.k k).trans (hk k)⟩

theorem rel_init : Rel C01.NMem.init Mem.empty :=
  rel_of_sim C01.nsim_init (fun t g => by simp [C01.QK.empty, C01.QSet.empty, Mem.empty])
    (fun k => by simp [C01.QK.empty, Mem.empty])

theorem Rel.err {mc : CMem} {ma : Mem} (h : Rel mc ma) : mc.cx.err = false := h.inv.err

theorem matches_eq (p : TPat) (t : Triple) : C01.Pat.matches p t = p.matches t := rfl

/-! ### store calls -/

theorem rel_add {mc : CMem} {ma : Mem} (h : Rel mc ma) (t : Triple) (k : Key) :
    Rel (mc.add t k) (ma.add t k) := by
  refine rel_of_sim (C01.nsim_step h.toSim (.add t k)) ?_ ?_
  · intro t' g
    simp only [C01.QK.step, QKof, Mem.add, mem_sinsert, Prod.mk.injEq]
    exact or_comm
  · intro k'
    simp only [C01.QK.step, QKof, Mem.add, mem_sinsert]
    exact or_comm

theorem rel_remove {mc : CMem} {ma : Mem} (h : Rel mc ma) (pat : TPat) (ctx : Option Key) :
    Rel (mc.remove pat ctx) (ma.remove pat ctx) := by
  refine rel_of_sim (C01.nsim_step h.toSim (.remove pat ctx)) ?_ ?_
  · intro t g
    simp only [C01.QK.step, QKof, Mem.remove, mem_removeQ, ctxOk_iff, matches_eq]
  · intro k
    simp only [C01.QK.step, QKof, Mem.remove]

theorem rel_addGraph {mc : CMem} {ma : Mem} (h : Rel mc ma) (k : Key) :
    Rel (mc.addGraph k) (ma.addGraph k) := by
  refine rel_of_sim (C01.nsim_step h.toSim (.addGraph k)) ?_ ?_
  · intro t g
    simp only [C01.QK.step, QKof, Mem.addGraph]
  · intro k'
    simp only [C01.QK.step, QKof, Mem.addGraph, mem_sinsert]
    exact or_comm

theorem rel_removeGraph {mc : CMem} {ma : Mem} (h : Rel mc ma) (k : Key) :
    Rel (mc.removeGraph k) (ma.removeGraph k) := by
  refine rel_of_sim (C01.nsim_step h.toSim (.removeGraph k)) ?_ ?_
  · intro t g
    simp only [C01.QK.step, QKof, Mem.removeGraph, Mem.remove, mem_removeQ, matches_all, ctxOk_some, true_and]
  · intro k'
    simp only [C01.QK.step, QKof, Mem.removeGraph, mem_sremove]
    exact and_comm

/-- `Graph.__iadd__` of a foreign graph's triples (C01's `iadd`: `addN` with the identifier filter) is
    the abstract `addAll` -/
theorem rel_iadd {mc : CMem} {ma : Mem} (h : Rel mc ma) (k : Key) (ts : List Triple) :
    Rel (mc.iadd k ts) (ma.addAll k ts) := by
  refine rel_of_sim (C01.nsim_step h.toSim (.graph (.iadd k ts))) ?_ ?_
  · intro t g
    simp only [C01.QK.step, C01.Spec.step, QKof, mem_addAll_qs]
    constructor
    · rintro (e | ⟨e1, e2⟩)
      · exact Or.inl e
      · exact Or.inr ⟨e2, e1⟩
    · rintro (e | ⟨e1, e2⟩)
      · exact Or.inl e
      · exact Or.inr ⟨e2, e1⟩
  · intro k'
    simp only [C01.QK.step, C01.KSpec.step, QKof, mem_addAll_allc]
    constructor
    · rintro (e | ⟨e1, t, e2⟩)
      · exact Or.inl e
      · exact Or.inr ⟨e1, List.ne_nil_of_mem e2⟩
    · rintro (e | ⟨e1, e2⟩)
      · exact Or.inl e
      · exact Or.inr ⟨e1, List.exists_mem_of_ne_nil _ e2⟩

/-- registering a graph that is already registered changes nothing that `Rel` sees -/
theorem rel_addGraph_of_mem {mc : CMem} {ma : Mem} (h : Rel mc ma) {k : Key} (hk : k ∈ ma.allc) :
    Rel mc (ma.addGraph k) := by
  refine ⟨h.wf, h.inv, h.nd, h.q, ?_⟩
  intro k'
  rw [h.k]
  simp only [Mem.addGraph, mem_sinsert]
  constructor
  · exact Or.inr
  · rintro (e | e)
    · rw [e]; exact hk
    · exact e

/-! ### store answers -/

theorem sees_iff {ma : Mem} {ctx : Option Key} {t : Triple} :
    (QKof ma).sees ctx t ↔ ∃ c, (t, c) ∈ ma.qs ∧ ctxOk ctx c = true := by
  simp only [C01.QK.sees, QKof, ctxOk_iff]

/-- `store.triples(pattern, context)`: the same triples as the abstract store yields -/
theorem mem_ctriples {mc : CMem} {ma : Mem} (h : Rel mc ma) (pat : TPat) (ctx : Option Key) (t : Triple) :
    t ∈ (mc.triplesC pat ctx).map (·.1) ↔ t ∈ (ma.triples pat ctx).map (·.1) := by
  have h1 := ((C01.nstoreObsAgree_of h.toSim).triples pat ctx).2 t
  rw [mem_triples_fst]
  simp only [C01.NMem.triplesC, List.map_map, Function.comp_def, List.map_id']
  rw [h1, sees_iff, matches_eq]
  exact and_comm

theorem ctriples_fst (mc : CMem) (pat : TPat) (ctx : Option Key) :
    (mc.triplesC pat ctx).map (·.1) = mc.triples pat ctx := by
  simp only [C01.NMem.triplesC, List.map_map, Function.comp_def, List.map_id']

theorem nodup_ctriples {mc : CMem} {ma : Mem} (h : Rel mc ma) (pat : TPat) (ctx : Option Key) :
    ((mc.triplesC pat ctx).map (·.1)).Nodup := by
  rw [ctriples_fst]
  exact ((C01.nstoreObsAgree_of h.toSim).triples pat ctx).1

/-- `quads`: each triple with exactly the graphs the abstract store reports for it -/
theorem mem_cquads {mc : CMem} {ma : Mem} (h : Rel mc ma) (pat : TPat) (ctx : Option Key) (q : Quad) :
    q ∈ expandCtxs (mc.triplesC pat ctx) ↔ q ∈ expandCtxs (ma.triples pat ctx) := by
  have hobs := C01.nstoreObsAgree_of h.toSim
  obtain ⟨t, k⟩ := q
  rw [mem_quads_of_triples, mem_expandCtxs]
  have ht := mem_ctriples h pat ctx t
  rw [mem_triples_fst] at ht
  constructor
  · rintro ⟨cs, h1, h2⟩
    have h3 := hobs.triple_ctxs pat ctx (t, cs) h1
    have h4 : t ∈ (mc.triplesC pat ctx).map (·.1) := List.mem_map.mpr ⟨(t, cs), h1, rfl⟩
    exact ⟨(h3.2.2 k).mp h2, ht.mp h4⟩
  · rintro ⟨h1, h2⟩
    have h4 := ht.mpr h2
    rw [ctriples_fst] at h4
    refine ⟨C01.ctxKeys mc.cx t, ?_, ?_⟩
    · simp only [C01.NMem.triplesC, List.mem_map]
      exact ⟨t, h4, rfl⟩
    · have h5 : (t, C01.ctxKeys mc.cx t) ∈ mc.triplesC pat ctx := by
        simp only [C01.NMem.triplesC, List.mem_map]
        exact ⟨t, h4, rfl⟩
      exact ((hobs.triple_ctxs pat ctx _ h5).2.2 k).mpr h1

theorem nodup_cquads {mc : CMem} {ma : Mem} (h : Rel mc ma) (pat : TPat) (ctx : Option Key) :
    (expandCtxs (mc.triplesC pat ctx)).Nodup := by
  apply nodup_expandCtxs
  · exact nodup_ctriples h pat ctx
  · intro x hx
    exact ((C01.nstoreObsAgree_of h.toSim).triple_ctxs pat ctx x hx).2.1

/-- `store.__len__(context)` -/
theorem clen_eq {mc : CMem} {ma : Mem} (h : Rel mc ma) (ctx : Option Key) : mc.len ctx = ma.len ctx := by
  refine (C01.nstoreObsAgree_of h.toSim).len ctx (selTriples TPat.all ctx ma.qs) (nodup_selTriples _ _ _) ?_
  intro t
  rw [mem_selTriples, sees_iff]
  simp only [matches_all, true_and]

/-- `store.contexts()` -/
theorem mem_storeContexts {mc : CMem} {ma : Mem} (h : Rel mc ma) (k : Key) :
    k ∈ storeContexts mc ↔ k ∈ ma.allc := (C01.nstoreObsAgree_of h.toSim).contexts_all.2 k

theorem nodup_storeContexts {mc : CMem} {ma : Mem} (h : Rel mc ma) : (storeContexts mc).Nodup :=
  (C01.nstoreObsAgree_of h.toSim).contexts_all.1

/-- `store.contexts(triple)` -/
theorem mem_cGraphsOf {mc : CMem} {ma : Mem} (h : Rel mc ma) (t : Triple) (k : Key) :
    k ∈ cgGraphsOf mc t ↔ k ∈ C02.cgGraphsOf ma t := by
  have := ((C01.nstoreObsAgree_of h.toSim).contexts_of t.1 t.2.1 t.2.2).2 k
  simp only [cgGraphsOf, C02.cgGraphsOf, mem_ctxsOf]
  exact this

theorem nodup_cGraphsOf {mc : CMem} {ma : Mem} (h : Rel mc ma) (t : Triple) : (cgGraphsOf mc t).Nodup :=
  ((C01.nstoreObsAgree_of h.toSim).contexts_of t.1 t.2.1 t.2.2).1

/-! ### the layer -/

theorem rel_cgGraphs {mc : CMem} {ma : Mem} (cfg : Cfg) (h : Rel mc ma) :
    Rel (cgGraphs cfg mc).1 (touch cfg ma) ∧ (cgGraphs cfg mc).2.Nodup ∧
      ∀ k, k ∈ (cgGraphs cfg mc).2 ↔ k ∈ (touch cfg ma).allc := by
  unfold cgGraphs touch
  by_cases hd : cfg.isDs = true
  · by_cases hm : cfg.dflt ∈ storeContexts mc
    · simp only [hd, hm, decide_true, Bool.not_true, Bool.and_false, Bool.false_eq_true, if_false, if_true]
      have hm' := (mem_storeContexts h _).mp hm
      refine ⟨rel_addGraph_of_mem h hm', nodup_storeContexts h, ?_⟩
      intro k
      rw [mem_storeContexts h]
      simp only [Mem.addGraph, mem_sinsert]
      constructor
      · exact Or.inr
      · rintro (e | e)
        · rw [e]; exact hm'
        · exact e
    · simp only [hd, hm, decide_false, Bool.not_false, Bool.and_self, if_true]
      refine ⟨rel_addGraph h _, ?_, ?_⟩
      · rw [List.nodup_append]
        refine ⟨nodup_storeContexts h, by simp, ?_⟩
        intro a ha b hb e
        simp only [List.mem_singleton] at hb
        subst hb; subst e
        exact hm ha
      · intro k
        simp only [List.mem_append, List.mem_singleton, mem_storeContexts h, Mem.addGraph, mem_sinsert]
        exact or_comm
  · have hd' : cfg.isDs = false := by cases hx : cfg.isDs <;> simp_all
    simp only [hd', Bool.false_and, Bool.false_eq_true, if_false]
    exact ⟨h, nodup_storeContexts h, mem_storeContexts h⟩

theorem rel_graphEff {mc : CMem} {ma : Mem} (cfg : Cfg) (h : Rel mc ma) (g : GArg) :
    Rel (graphEff cfg mc g) (C02.graphEff cfg ma g) := by
  cases g with
  | none => exact h
  | ident k => exact h
  | view k => exact h
  | foreign k ts => exact rel_iadd (rel_cgGraphs cfg h).1 k ts

theorem rel_spocEff {mc : CMem} {ma : Mem} (cfg : Cfg) (h : Rel mc ma) (tq : TQ) :
    Rel (spocEff cfg mc tq) (C02.spocEff cfg ma tq) := by
  cases tq with
  | nil => exact h
  | tri p => exact h
  | quad p g => exact rel_graphEff cfg h g

theorem rel_cgAdd {mc : CMem} {ma : Mem} (cfg : Cfg) (h : Rel mc ma) (t : Triple) (g : Option GArg) :
    Rel (cgAdd cfg mc t g) (C02.cgAdd cfg ma t g) := by
  cases g with
  | none =>
    simp only [cgAdd, C02.cgAdd, spocKey, if_true]
    exact rel_add h t _
  | some g =>
    simp only [cgAdd, C02.cgAdd, spocKey_default]
    exact rel_add (rel_spocEff cfg h _) t _

theorem rel_cgAddN {cfg : Cfg} (qs : List (Triple × GArg)) :
    ∀ {mc : CMem} {ma : Mem}, Rel mc ma →
      Rel (cgAddN cfg mc qs).1 (C02.cgAddN cfg ma qs).1 ∧ (cgAddN cfg mc qs).2 = (C02.cgAddN cfg ma qs).2 := by
  induction qs with
  | nil => intro mc ma h; exact ⟨h, rfl⟩
  | cons x r ih =>
    intro mc ma h
    obtain ⟨t, g⟩ := x
    simp only [cgAddN, C02.cgAddN]
    cases hk : g.key with
    | none => exact ⟨rel_graphEff cfg h g, rfl⟩
    | some k => exact ih (rel_add (rel_graphEff cfg h g) t k)

theorem rel_cgRemove {mc : CMem} {ma : Mem} (cfg : Cfg) (h : Rel mc ma) (tq : TQ) :
    Rel (cgRemove cfg mc tq) (C02.cgRemove cfg ma tq) :=
  rel_remove (rel_spocEff cfg h tq) _ _

theorem rel_cgTriples {mc : CMem} {ma : Mem} (cfg : Cfg) (h : Rel mc ma) (tq : TQ) (c : GArg) :
    Rel (cgTriples cfg mc tq c).1 (C02.cgTriples cfg ma tq c).1 :=
  rel_graphEff cfg (rel_spocEff cfg h tq) _

theorem rel_cgContains {mc : CMem} {ma : Mem} (cfg : Cfg) (h : Rel mc ma) (tq : TQ) :
    Rel (cgContains cfg mc tq).1 (C02.cgContains cfg ma tq).1 :=
  rel_cgTriples cfg (rel_spocEff cfg h tq) _ _

theorem rel_dsGraph {mc : CMem} {ma : Mem} (cfg : Cfg) (h : Rel mc ma) (g : GArg) :
    Rel (dsGraph cfg mc g) (C02.dsGraph cfg ma g) := by
  unfold dsGraph C02.dsGraph
  cases g.key with
  | none => exact h
  | some k => exact rel_addGraph (rel_graphEff cfg h g) k

theorem rel_dsRemoveGraph {mc : CMem} {ma : Mem} (cfg : Cfg) (h : Rel mc ma) (k : Key) :
    Rel (dsRemoveGraph cfg mc k) (C02.dsRemoveGraph cfg ma k) := by
  unfold dsRemoveGraph C02.dsRemoveGraph
  simp only
  split
  · exact rel_addGraph (rel_removeGraph h k) _
  · exact rel_removeGraph h k

theorem rel_step {mc : CMem} {ma : Mem} (cfg : Cfg) (h : Rel mc ma) (op : Op) :
    Rel (step cfg mc op) (C02.step cfg ma op) := by
  cases op with
  | add t g => exact rel_cgAdd cfg h t g
  | addN qs => exact (rel_cgAddN qs h).1
  | remove tq => exact rel_cgRemove cfg h tq
  | graph g =>
    simp only [step, C02.step]
    split
    · exact rel_dsGraph cfg h g
    · exact h
  | removeGraph k =>
    simp only [step, C02.step]
    split
    · exact rel_dsRemoveGraph cfg h k
    · exact h
  | removeContext k => exact rel_remove h TPat.all (some k)
  | vadd k t => exact rel_add h t k
  | vremove k p => exact rel_remove h p _
  | triples tq c => exact rel_cgTriples cfg h tq c
  | contains tq => exact rel_cgContains cfg h tq
  | quads tq => exact rel_spocEff cfg h tq
  | graphs => exact (rel_cgGraphs cfg h).1
  | choices c => exact rel_graphEff cfg h c

theorem rel_run {cfg : Cfg} (ops : List Op) :
    ∀ {mc : CMem} {ma : Mem}, Rel mc ma → Rel (run cfg mc ops) (C02.run cfg ma ops) := by
  induction ops with
  | nil => intro mc ma h; exact h
  | cons op ops ih => intro mc ma h; exact ih (rel_step cfg h op)

theorem rel_runS (sops : List SOp) :
    ∀ {sc : Cfg × CMem} {sa : Cfg × Mem}, sc.1 = sa.1 → Rel sc.2 sa.2 →
      (runS sc sops).1 = (C02.runS sa sops).1 ∧ Rel (runS sc sops).2 (C02.runS sa sops).2 := by
  induction sops with
  | nil => intro sc sa e h; exact ⟨e, h⟩
  | cons o r ih =>
    intro sc sa e h
    cases o with
    | op o =>
      refine ih (sc := (sc.1, step sc.1 sc.2 o)) (sa := (sa.1, C02.step sa.1 sa.2 o)) e ?_
      show Rel (step sc.1 sc.2 o) (C02.step sa.1 sa.2 o)
      rw [e]
      exact rel_step _ h o
    | setUnion b =>
      refine ih (sc := ({ sc.1 with du := b }, sc.2)) (sa := ({ sa.1 with du := b }, sa.2)) ?_ h
      show ({ sc.1 with du := b } : Cfg) = { sa.1 with du := b }
      rw [e]

/-! ### answers of the layer's reading calls: concrete = abstract (as sets; the concrete ones duplicate-free) -/

theorem isEmpty_congr {α : Type} {l1 l2 : List α} (h : ∀ x, x ∈ l1 ↔ x ∈ l2) : l1.isEmpty = l2.isEmpty := by
  cases l1 with
  | nil =>
    cases l2 with
    | nil => rfl
    | cons b r => exact absurd ((h b).mpr List.mem_cons_self) List.not_mem_nil
  | cons a r =>
    cases l2 with
    | nil => exact absurd ((h a).mp List.mem_cons_self) List.not_mem_nil
    | cons b r' => rfl

theorem cgTriples_out {mc : CMem} {ma : Mem} (cfg : Cfg) (h : Rel mc ma) (tq : TQ) (c : GArg) :
    (cgTriples cfg mc tq c).2.Nodup ∧
      ∀ t, t ∈ (cgTriples cfg mc tq c).2 ↔ t ∈ (C02.cgTriples cfg ma tq c).2 :=
  ⟨nodup_ctriples (rel_cgTriples cfg h tq c) _ _, mem_ctriples (rel_cgTriples cfg h tq c) _ _⟩

theorem cgContains_out {mc : CMem} {ma : Mem} (cfg : Cfg) (h : Rel mc ma) (tq : TQ) :
    (cgContains cfg mc tq).2 = (C02.cgContains cfg ma tq).2 := by
  show (!((cgTriples cfg (spocEff cfg mc tq) (.tri tq.pat) (asView (spocKey cfg tq false))).2).isEmpty) =
    (!((C02.cgTriples cfg (C02.spocEff cfg ma tq) (.tri tq.pat) (asView (spocKey cfg tq false))).2).isEmpty)
  rw [isEmpty_congr (cgTriples_out cfg (rel_spocEff cfg h tq) _ _).2]

theorem cgQuads_out {mc : CMem} {ma : Mem} (cfg : Cfg) (h : Rel mc ma) (tq : TQ) :
    (cgQuads cfg mc tq).2.Nodup ∧ ∀ q, q ∈ (cgQuads cfg mc tq).2 ↔ q ∈ (C02.cgQuads cfg ma tq).2 :=
  ⟨nodup_cquads (rel_spocEff cfg h tq) _ _, mem_cquads (rel_spocEff cfg h tq) _ _⟩

theorem cgChoices_out {mc : CMem} {ma : Mem} (cfg : Cfg) (h : Rel mc ma) (ch : Choice) (c : GArg) :
    ∀ t, t ∈ (cgTriplesChoices cfg mc ch c).2 ↔ t ∈ (C02.cgTriplesChoices cfg ma ch c).2 := by
  intro t
  simp only [cgTriplesChoices, C02.cgTriplesChoices, List.mem_flatMap]
  exact exists_congr (fun p => and_congr_right (fun _ => mem_ctriples (rel_graphEff cfg h c) _ _ t))

theorem vTriples_out {mc : CMem} {ma : Mem} (h : Rel mc ma) (k : Key) (p : TPat) :
    (vTriples mc k p).Nodup ∧ ∀ t, t ∈ vTriples mc k p ↔ t ∈ C02.vTriples ma k p :=
  ⟨nodup_ctriples h _ _, mem_ctriples h _ _⟩

theorem vContains_out {mc : CMem} {ma : Mem} (h : Rel mc ma) (k : Key) (p : TPat) :
    vContains mc k p = C02.vContains ma k p := by
  unfold vContains C02.vContains
  rw [isEmpty_congr (vTriples_out h k p).2]

theorem vChoices_out {mc : CMem} {ma : Mem} (h : Rel mc ma) (k : Key) (ch : Choice) :
    ∀ t, t ∈ vChoices mc k ch ↔ t ∈ C02.vChoices ma k ch := by
  intro t
  simp only [vChoices, C02.vChoices, List.mem_flatMap]
  exact exists_congr (fun p => and_congr_right (fun _ => (vTriples_out h k p).2 t))

theorem ccontent_iff {mc : CMem} {ma : Mem} (h : Rel mc ma) (k : Key) (t : Triple) :
    t ∈ vTriples mc k TPat.all ↔ content ma k t := (vTriples_out h k TPat.all).2 t

end RV.C02.Conc
