import RV.C16.Text
import RV.C16.LemTsvStr
/-
  C16, round g — JSON strings: `scanstring` undoes every RFC 8259 spelling of a string
  (in particular Python's `encode_basestring` and `encode_basestring_ascii`).
-/
namespace RV.C16
open Spec.Tsv


theorem jsonScanP_raw {c : Char} (h1 : c ≠ '"') (h2 : c ≠ '\\') (h3 : ¬ c.toNat < 0x20) (tail : Str) :
    jsonScanP none (c :: tail) = consOk c (jsonScanP none tail) := by
  rw [jsonScanP.eq_def]
  simp only [h1, h2, h3, if_false, Option.isSome_none, Bool.false_eq_true, id]

theorem jsonScanP_short {e d : Char} (he : e ≠ 'u') (h : jsonUnshort e = some d) (tail : Str) :
    jsonScanP none ('\\' :: e :: tail) = consOk d (jsonScanP none tail) := by
  rw [jsonScanP.eq_def]
  simp only [show ('\\' : Char) ≠ '"' by decide, if_false, if_true, he, h, Option.isSome_none,
    Bool.false_eq_true, id]

theorem hexNum4 (lower : Bool) {n : Nat} (hn : n < 65536) :
    hexNum 0 [hexDigit lower (n / 4096 % 16), hexDigit lower (n / 256 % 16), hexDigit lower (n / 16 % 16),
      hexDigit lower (n % 16)] = some n := by
  have := hexNum_hex4 lower 0 hn []
  simpa [hexNum, hex4] using this

/-- a `\uXXXX` escape that is not a surrogate -/
theorem jsonScanP_u4 (lower : Bool) {n : Nat} (hn : n < 65536) (h1 : ¬ (0xD800 ≤ n ∧ n ≤ 0xDBFF))
    (h2 : ¬ (0xDC00 ≤ n ∧ n ≤ 0xDFFF)) (tail : Str) :
    jsonScanP none (ju4 lower n ++ tail) = emitUnit n (jsonScanP none tail) := by
  simp only [ju4, hex4, List.cons_append, List.nil_append]
  rw [jsonScanP.eq_def]
  simp only [show ('\\' : Char) ≠ '"' by decide, if_false, if_true, hexNum4 lower hn, h1, h2,
    Option.isSome_none, Bool.false_eq_true, id, decide_false]

/-- a high surrogate escape is remembered -/
theorem jsonScanP_hi (lower : Bool) {n : Nat} (h1 : 0xD800 ≤ n ∧ n ≤ 0xDBFF) (tail : Str) :
    jsonScanP none (ju4 lower n ++ tail) = jsonScanP (some n) tail := by
  have hn : n < 65536 := by omega
  have h2 : ¬ (0xDC00 ≤ n ∧ n ≤ 0xDFFF) := by omega
  simp only [ju4, hex4, List.cons_append, List.nil_append]
  rw [jsonScanP.eq_def]
  simp only [show ('\\' : Char) ≠ '"' by decide, if_false, if_true, hexNum4 lower hn, h1, h2,
    Option.isSome_none, Bool.false_eq_true, id, decide_false, and_self]

/-- … and joined with the low surrogate escape that follows -/
theorem jsonScanP_lo (lower : Bool) (h : Nat) {m : Nat} (h2 : 0xDC00 ≤ m ∧ m ≤ 0xDFFF) (tail : Str) :
    jsonScanP (some h) (ju4 lower m ++ tail)
      = consOk (Char.ofNat (0x10000 + (h - 0xD800) * 1024 + (m - 0xDC00))) (jsonScanP none tail) := by
  have hm : m < 65536 := by omega
  simp only [ju4, hex4, List.cons_append, List.nil_append]
  rw [jsonScanP.eq_def]
  simp only [show ('\\' : Char) ≠ '"' by decide, if_false, if_true, hexNum4 lower hm, h2, and_self,
    decide_true]

theorem char_not_surrogate (c : Char) : ¬ (0xD800 ≤ c.toNat ∧ c.toNat ≤ 0xDFFF) := by
  have := c.valid
  unfold UInt32.isValidChar Nat.isValidChar at this
  show ¬ (_ ≤ c.val.toNat ∧ c.val.toNat ≤ _)
  omega

theorem emitUnit_char (c : Char) (k : Scan) : emitUnit c.toNat k = consOk c k := by
  simp [emitUnit, chrOf_toNat]

/-- the `\uXXXX` spelling of any character — a surrogate pair above U+FFFF — is read back as that character -/
theorem jsonScanP_jsonU (lower : Bool) (c : Char) (tail : Str) :
    jsonScanP none (jsonU lower c ++ tail) = consOk c (jsonScanP none tail) := by
  have hs := char_not_surrogate c
  unfold jsonU
  split
  · next hlt =>
    rw [jsonScanP_u4 lower hlt (by omega) (by omega), emitUnit_char]
  · next hge =>
    have hlt := char_toNat_lt c
    have key : ∀ hi lo : Nat, 0xD800 ≤ hi ∧ hi ≤ 0xDBFF → 0xDC00 ≤ lo ∧ lo ≤ 0xDFFF →
        0x10000 + (hi - 0xD800) * 1024 + (lo - 0xDC00) = c.toNat →
        jsonScanP none ((ju4 lower hi ++ ju4 lower lo) ++ tail) = consOk c (jsonScanP none tail) := by
      intro hi lo hhi hlo e
      rw [List.append_assoc, jsonScanP_hi lower hhi, jsonScanP_lo lower _ hlo, e, Char.ofNat_toNat]
    exact key _ _ (by omega) (by omega) (by omega)

theorem jsonUnshort_jsonShort {c e : Char} (h : jsonShort c = some e) : jsonUnshort e = some c ∧ e ≠ 'u' := by
  unfold jsonShort at h
  split_ifs at h <;> (cases h; subst_vars; decide)

theorem jsonShort_none {c : Char} (h : jsonShort c = none) : c ≠ '"' ∧ c ≠ '\\' := by
  constructor <;> (intro e; subst e; revert h; decide)

/-- `encode_basestring` on one character -/
theorem jsonScanP_pyEscChar (c : Char) (tail : Str) :
    jsonScanP none (pyEscChar c ++ tail) = consOk c (jsonScanP none tail) := by
  unfold pyEscChar
  split
  · next e h =>
    obtain ⟨h1, h2⟩ := jsonUnshort_jsonShort h
    exact jsonScanP_short h2 h1 tail
  · next h =>
    obtain ⟨h1, h2⟩ := jsonShort_none h
    split
    · next hlt => rw [jsonScanP_u4 true (by omega) (by omega) (by omega), emitUnit_char]
    · next hge => exact jsonScanP_raw h1 h2 hge tail

/-- `encode_basestring_ascii` on one character -/
theorem jsonScanP_pyEscCharAscii (c : Char) (tail : Str) :
    jsonScanP none (pyEscCharAscii c ++ tail) = consOk c (jsonScanP none tail) := by
  unfold pyEscCharAscii
  split
  · next hc =>
    split
    · next e h =>
      obtain ⟨h1, h2⟩ := jsonUnshort_jsonShort h
      exact jsonScanP_short h2 h1 tail
    · exact jsonScanP_jsonU true c tail
  · next hc =>
    have hc' : c ≠ '\\' ∧ c ≠ '"' ∧ ¬ c.toNat < 0x20 ∧ ¬ 0x7e < c.toNat := by
      simpa [not_or] using hc
    exact jsonScanP_raw hc'.2.1 hc'.1 hc'.2.2.1 tail

/-- every spelling the reference writer can choose for one character -/
theorem jsonScanP_jsonSpellChar (k : Nat) (c : Char) (tail : Str) :
    jsonScanP none (jsonSpellChar k c ++ tail) = consOk c (jsonScanP none tail) := by
  unfold jsonSpellChar
  split
  · exact jsonScanP_jsonU _ c tail
  · split
    · next h => obtain ⟨-, rfl⟩ := h; exact jsonScanP_short (by decide) (by decide) tail
    · exact jsonScanP_pyEscChar c tail

theorem jsonScanP_close (rest : Str) : jsonScanP none ('"' :: rest) = .ok ([], rest, false) := by
  rw [jsonScanP.eq_def]; simp

theorem jsonScan_escAll {f : Char → Str}
    (hf : ∀ c tail, jsonScanP none (f c ++ tail) = consOk c (jsonScanP none tail)) (s rest : Str) :
    jsonScan (escAll f s ++ '"' :: rest) = .ok (s, rest, false) := by
  unfold jsonScan
  induction s with
  | nil => exact jsonScanP_close rest
  | cons c cs ih =>
    simp only [escAll, List.append_assoc]
    rw [hf, ih]; rfl

theorem jsonScan_jsonSpell (ks : List Nat) (s rest : Str) :
    jsonScan (jsonSpell ks s ++ '"' :: rest) = .ok (s, rest, false) := by
  unfold jsonScan
  induction s generalizing ks with
  | nil => exact jsonScanP_close rest
  | cons c cs ih =>
    simp only [jsonSpell, List.append_assoc]
    rw [jsonScanP_jsonSpellChar, ih]; rfl

theorem jsonLoadsStr_pyDumpsStr (ascii : Bool) (s : Str) : jsonLoadsStr (pyDumpsStr ascii s) = .ok s := by
  unfold jsonLoadsStr pyDumpsStr
  have : jsonScan (escAll (if ascii then pyEscCharAscii else pyEscChar) s ++ ['"']) = .ok (s, [], false) := by
    cases ascii
    · exact jsonScan_escAll jsonScanP_pyEscChar s []
    · exact jsonScan_escAll jsonScanP_pyEscCharAscii s []
  simp only [this]

/-- Python's minimal writer is the all-zero choice stream of the reference writer -/
theorem escAll_pyEscChar_eq_spell (s : Str) : escAll pyEscChar s = jsonSpell [] s := by
  induction s with
  | nil => rfl
  | cons c cs ih => simp [escAll, jsonSpell, jsonSpellChar, ih]

end RV.C16
