import RV.C16.Text
/-
  C16, round h — the JSON DOCUMENT around the strings (executable, core-only).

    writer  `json.dumps(res, allow_nan=False, ensure_ascii=False)` on the tree `JSONResultSerializer.serialize` builds:
            `json.encoder` with the default separators `", "` and `": "`, no indentation, members in insertion order,
            `true` / `false` / `null`, strings through `encode_basestring` (`pyDumpsStr false`);
    reader  `json.loads` = `JSONDecoder.decode` / `raw_decode` / the scanner's `scan_once` / `JSONObject` / `JSONArray`:
            white space (space, tab, LF, CR) skipped before and after every token, a value chosen by its first character,
            `{` … `}` with `"key" : value` members separated by `,`, `[` … `]`, no trailing comma, nothing but white space
            after the value ("Extra data").
  Outside the model (`.unmodelled`): numbers (`-`, digits, `NaN`, `Infinity`) — no SPARQL JSON writer needs them —, and
  duplicate keys of one object (Python's dict keeps the last value, `alookup` finds the first; no writer produces them).
-/
namespace RV.C16

mutual
/-- `json.dumps` of a tree -/
def jsonWrite : Json → Str
  | .null => ['n', 'u', 'l', 'l']
  | .bool true => ['t', 'r', 'u', 'e']
  | .bool false => ['f', 'a', 'l', 's', 'e']
  | .num => ['0']                                   -- never written by rdflib (`numFree` in the theorems)
  | .str s => pyDumpsStr false s
  | .arr xs => '[' :: (jsonWriteItems true xs ++ [']'])
  | .obj kvs => '{' :: (jsonWriteMembers true kvs ++ ['}'])
/-- the items of an array, `", "` before every item but the first -/
def jsonWriteItems : Bool → List Json → Str
  | _, [] => []
  | first, x :: r => (if first then [] else [',', ' ']) ++ (jsonWrite x ++ jsonWriteItems false r)
/-- the members of an object: `"key": value` -/
def jsonWriteMembers : Bool → List (Str × Json) → Str
  | _, [] => []
  | first, (k, v) :: r =>
    (if first then [] else [',', ' ']) ++ (pyDumpsStr false k ++ ':' :: ' ' :: (jsonWrite v ++ jsonWriteMembers false r))
end

/-- `json.decoder.WHITESPACE` -/
def jWs (c : Char) : Bool := c == ' ' || c == '\t' || c == '\n' || c == '\r'

def skipWs : Str → Str
  | [] => []
  | c :: r => if jWs c then skipWs r else c :: r

def mapFst {α β γ : Type} (f : α → β) : Except Err (α × γ) → Except Err (β × γ)
  | .ok (a, c) => .ok (f a, c)
  | .error e => .error e

/-- the closing part of the string cases -/
def scanKey (r : Str) : Except Err (Str × Str) :=
  match jsonScan r with
  | .ok (x, rest, false) => .ok (x, rest)
  | .ok (_, _, true) => .error .unmodelled
  | .error e => .error e

/-- the character that closes an empty container -/
def closes (q : Char) : Str → Option Str
  | c :: rest => if c = q then some rest else none
  | [] => none

def litNull : Str → Except Err (Json × Str)
  | 'u' :: 'l' :: 'l' :: rest => .ok (.null, rest)
  | _ => .error .value
def litTrue : Str → Except Err (Json × Str)
  | 'r' :: 'u' :: 'e' :: rest => .ok (.bool true, rest)
  | _ => .error .value
def litFalse : Str → Except Err (Json × Str)
  | 'a' :: 'l' :: 's' :: 'e' :: rest => .ok (.bool false, rest)
  | _ => .error .value

mutual
/-- `scan_once` at the first character of a value (white space already skipped); the fuel bounds the nesting × length -/
def parseValue : Nat → Str → Except Err (Json × Str)
  | 0, _ => .error .unmodelled
  | f + 1, s =>
    match s with
    | [] => .error .value
    | c :: r =>
      if c = '"' then mapFst Json.str (scanKey r)
      else if c = '{' then
        (match closes '}' (skipWs r) with
         | some rest => .ok (.obj [], rest)
         | none => mapFst Json.obj (parseMembers f (skipWs r)))
      else if c = '[' then
        (match closes ']' (skipWs r) with
         | some rest => .ok (.arr [], rest)
         | none => mapFst Json.arr (parseItems f (skipWs r)))
      else if c = 'n' then litNull r
      else if c = 't' then litTrue r
      else if c = 'f' then litFalse r
      else if c = '-' ∨ isDigit c = true ∨ c = 'N' ∨ c = 'I' then .error .unmodelled
      else .error .value
/-- `JSONArray` after `[` and a first non-`]` character: value, then `,` value … `]` -/
def parseItems : Nat → Str → Except Err (List Json × Str)
  | 0, _ => .error .unmodelled
  | f + 1, s =>
    match parseValue f s with
    | .error e => .error e
    | .ok (x, r) =>
      match skipWs r with
      | c :: r' =>
        if c = ',' then mapFst (x :: ·) (parseItems f (skipWs r'))
        else if c = ']' then .ok ([x], r')
        else .error .value
      | [] => .error .value
/-- `JSONObject` after `{` and a first non-`}` character: `"key" : value`, then `,` … `}` -/
def parseMembers : Nat → Str → Except Err (List (Str × Json) × Str)
  | 0, _ => .error .unmodelled
  | f + 1, s =>
    match s with
    | c :: r =>
      if c = '"' then
        match scanKey r with
        | .error e => .error e
        | .ok (k, r1) =>
          match skipWs r1 with
          | c2 :: r2 =>
            if c2 = ':' then
              match parseValue f (skipWs r2) with
              | .error e => .error e
              | .ok (v, r3) =>
                match skipWs r3 with
                | c4 :: r4 =>
                  if c4 = ',' then mapFst ((k, v) :: ·) (parseMembers f (skipWs r4))
                  else if c4 = '}' then .ok ([(k, v)], r4)
                  else .error .value
                | [] => .error .value
            else .error .value
          | [] => .error .value
      else .error .value
    | [] => .error .value
end

/-- `json.loads(text)` -/
def jsonParse (s : Str) : Except Err Json :=
  match parseValue (s.length + 1) (skipWs s) with
  | .error e => .error e
  | .ok (j, rest) => if skipWs rest = [] then .ok j else .error .value      -- "Extra data"

/-- `Result.parse(BytesIO(r.serialize(format="json")), format="json")` through the document text -/
def jsonDocRoundTrip (r : Result) : Except Err Result :=
  match jsonParse (jsonWrite (toJson r)) with
  | .error e => .error e
  | .ok j => ofJson j

mutual
def numFree : Json → Bool
  | .num => false
  | .arr xs => numFreeItems xs
  | .obj kvs => numFreeMembers kvs
  | _ => true
def numFreeItems : List Json → Bool
  | [] => true
  | x :: r => numFree x && numFreeItems r
def numFreeMembers : List (Str × Json) → Bool
  | [] => true
  | (_, v) :: r => numFree v && numFreeMembers r
end

mutual
def jsize : Json → Nat
  | .arr xs => 1 + jsizeItems xs
  | .obj kvs => 1 + jsizeMembers kvs
  | _ => 1
def jsizeItems : List Json → Nat
  | [] => 0
  | x :: r => 1 + jsize x + jsizeItems r
def jsizeMembers : List (Str × Json) → Nat
  | [] => 0
  | (_, v) :: r => 1 + jsize v + jsizeMembers r
end

end RV.C16
