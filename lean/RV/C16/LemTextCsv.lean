import RV.C16.Text
/-
  C16, round g — CSV text: Python's `csv.reader` state machine (over the lines of a `newline=""` source) undoes
  `csv.writer` — and every RFC 4180 rendering (fields quoted without need, bare LF line ends) — for every field table.
-/
namespace RV.C16

/-- the machine just after the characters of a field `f` (the record so far being `fs`) -/
inductive After (f : Str) (fs : List Str) : CsvM → Prop
  | quoted : After f fs ⟨.quoteInQuoted, f, fs⟩
  | plain : After f fs ⟨.inField, f, fs⟩
  | emptyF : f = [] → After f fs ⟨.startField, [], fs⟩
  | emptyR : f = [] → fs = [] → After f fs ⟨.startRecord, [], []⟩

theorem csvRun_comma {f : Str} {fs : List Str} {m : CsvM} (h : After f fs m) (mid : Bool) (tail : Str) :
    csvRun m mid (',' :: tail) = csvRun ⟨.startField, [], fs ++ [f]⟩ true tail := by
  cases h with
  | quoted => simp +decide [csvRun, csvChar, CsvM.save]
  | plain => simp +decide [csvRun, csvChar, CsvM.save]
  | emptyF h => subst h; simp +decide [csvRun, csvChar, csvStartField, CsvM.save]
  | emptyR h1 h2 => subst h1; subst h2; simp +decide [csvRun, csvChar, csvStartField, CsvM.save]

theorem csvRun_eol {f : Str} {fs : List Str} {m : CsvM} (h : After f fs m) (hst : m.st ≠ .startRecord)
    (lf mid : Bool) (rest : Str) :
    csvRun m mid (csvEol lf ++ rest) = consRec (fs ++ [f]) (csvRun csvFresh false rest) := by
  cases lf <;> cases h with
  | quoted => simp +decide [csvEol, csvRun, csvChar, CsvM.save, csvEolStep, nextIsLF]
  | plain => simp +decide [csvEol, csvRun, csvChar, CsvM.save, csvEolStep, nextIsLF]
  | emptyF h => subst h; simp +decide [csvEol, csvRun, csvChar, csvStartField, CsvM.save, csvEolStep, nextIsLF]
  | emptyR h1 h2 => exact absurd rfl hst

/-- the inside of a quoted field, up to and including the closing quote -/
theorem csvRun_quoteBody (f fld : Str) (fs : List Str) (mid : Bool) (tail : Str) :
    csvRun ⟨.inQuoted, fld, fs⟩ mid (csvQuoteBody f ++ '"' :: tail)
      = csvRun ⟨.quoteInQuoted, fld ++ f, fs⟩ true tail := by
  induction f generalizing fld mid with
  | nil => simp +decide [csvQuoteBody, csvRun, csvChar]
  | cons c cs ih =>
    by_cases hc : c = '"'
    · subst hc
      have := ih (fld ++ ['"']) true
      simp only [List.append_assoc, List.cons_append, List.nil_append] at this
      simp +decide [csvQuoteBody, csvRun, csvChar, CsvM.add, this]
    · simp only [csvQuoteBody, hc, if_false, List.cons_append]
      rw [csvRun]
      simp only [csvChar, hc, if_false, CsvM.add]
      have e1 := ih (fld ++ [c]) false
      have e2 := ih (fld ++ [c]) true
      simp only [List.append_assoc, List.cons_append, List.nil_append] at e1 e2
      split
      · simp +decide [csvEolStep, e1]
      · exact e2

theorem not_special {c : Char} (h : csvSpecial c = false) : c ≠ ',' ∧ c ≠ '"' ∧ c ≠ '\r' ∧ c ≠ '\n' := by
  refine ⟨?_, ?_, ?_, ?_⟩ <;> (intro e; subst e; revert h; decide)

/-- the characters of an unquoted field -/
theorem csvRun_plainBody (f fld : Str) (fs : List Str) (mid : Bool) (tail : Str) (h : f.any csvSpecial = false) :
    csvRun ⟨.inField, fld, fs⟩ mid (f ++ tail) = csvRun ⟨.inField, fld ++ f, fs⟩ (mid || !f.isEmpty) tail := by
  induction f generalizing fld mid with
  | nil => simp
  | cons c cs ih =>
    have h' : csvSpecial c = false ∧ cs.any csvSpecial = false := by simpa using h
    obtain ⟨h1, h2, h3, h4⟩ := not_special h'.1
    have := ih (fld ++ [c]) true h'.2
    simp only [List.append_assoc, List.cons_append, List.nil_append, Bool.true_or] at this
    rw [List.cons_append, csvRun]
    simp [csvChar, h1, h3, h4, CsvM.add, this]

/-- one field, written quoted or not, read from the start of a record or after a delimiter -/
theorem csvRun_field (q : Bool) (f : Str) (fs : List Str) (st0 : CsvSt) (mid : Bool) (tail : Str)
    (h0 : st0 = .startField ∨ (st0 = .startRecord ∧ fs = [])) :
    ∃ m' mid', After f fs m' ∧ (m'.st = .startRecord → st0 = .startRecord ∧ (q || f.any csvSpecial) = false ∧ f = []) ∧
      csvRun ⟨st0, [], fs⟩ mid (csvWriteField q f ++ tail) = csvRun m' mid' tail := by
  unfold csvWriteField
  split
  · -- quoted
    refine ⟨⟨.quoteInQuoted, f, fs⟩, true, .quoted, (by intro h; cases h), ?_⟩
    have := csvRun_quoteBody f [] fs true tail
    simp only [List.nil_append] at this
    rcases h0 with rfl | ⟨rfl, rfl⟩ <;>
      simp +decide [csvRun, csvChar, csvStartField, this]
  · next hq =>
    have hq' : (q || f.any csvSpecial) = false := by simpa using hq
    have hs : f.any csvSpecial = false := by
      cases q <;> simp_all
    cases f with
    | nil =>
      rcases h0 with rfl | ⟨rfl, rfl⟩
      · exact ⟨_, mid, .emptyF rfl, (by intro h; cases h), rfl⟩
      · exact ⟨_, mid, .emptyR rfl rfl, fun _ => ⟨rfl, hq', rfl⟩, rfl⟩
    | cons c cs =>
      have h' : csvSpecial c = false ∧ cs.any csvSpecial = false := by simpa using hs
      obtain ⟨h1, h2, h3, h4⟩ := not_special h'.1
      refine ⟨⟨.inField, c :: cs, fs⟩, true, .plain, (by intro h; cases h), ?_⟩
      have := csvRun_plainBody cs [c] fs true tail h'.2
      simp only [List.cons_append, List.nil_append, Bool.true_or] at this
      rcases h0 with rfl | ⟨rfl, rfl⟩ <;>
        (rw [List.cons_append, csvRun]; simp [csvChar, csvStartField, h1, h2, h3, h4, CsvM.add, this])

theorem consRec_ok (r : List Str) (rs : List (List Str)) : consRec r (.ok rs) = .ok (r :: rs) := rfl

/-- the fields of one record and its line end -/
theorem csvRun_fields (lf : Bool) (rest : Str) (r : List Str) :
    ∀ (f : Str) (fs : List Str) (qs : List Bool) (st0 : CsvSt) (mid : Bool),
      (st0 = .startField ∨ (st0 = .startRecord ∧ fs = [] ∧
        ¬ (r = [] ∧ f = [] ∧ (qs.headD false || f.any csvSpecial) = false))) →
      csvRun ⟨st0, [], fs⟩ mid (csvRenderFields qs (f :: r) ++ (csvEol lf ++ rest))
        = consRec (fs ++ f :: r) (csvRun csvFresh false rest) := by
  induction r with
  | nil =>
    intro f fs qs st0 mid h0
    obtain ⟨m', mid', ha, hst, e⟩ := csvRun_field (qs.headD false) f fs st0 mid (csvEol lf ++ rest)
      (by rcases h0 with h | ⟨h1, h2, -⟩; exact .inl h; exact .inr ⟨h1, h2⟩)
    simp only [csvRenderFields]
    rw [e, csvRun_eol ha]
    intro hs
    obtain ⟨h1, h2, h3⟩ := hst hs
    rcases h0 with h | ⟨-, -, h⟩
    · rw [h] at h1; cases h1
    · exact h ⟨rfl, h3, h2⟩
  | cons g r' ih =>
    intro f fs qs st0 mid h0
    obtain ⟨m', mid', ha, -, e⟩ := csvRun_field (qs.headD false) f fs st0 mid
      (',' :: (csvRenderFields qs.tail (g :: r') ++ (csvEol lf ++ rest)))
      (by rcases h0 with h | ⟨h1, h2, -⟩; exact .inl h; exact .inr ⟨h1, h2⟩)
    simp only [csvRenderFields, List.append_assoc, List.cons_append]
    rw [e, csvRun_comma ha, ih g (fs ++ [f]) qs.tail .startField true (.inl rfl)]
    simp

/-- one record -/
theorem csvRun_row (qs : List Bool) (lf : Bool) (row : List Str) (rest : Str) :
    csvRun csvFresh false (csvRenderRow qs lf row ++ rest) = consRec row (csvRun csvFresh false rest) := by
  unfold csvRenderRow
  split
  · -- the record of one empty field: `""`
    have := csvRun_fields lf rest [] [] [] [true] .startRecord false (.inr ⟨rfl, rfl, by simp⟩)
    simpa [csvRenderFields, csvWriteField, csvQuoteBody, csvFresh] using this
  · next hne =>
    cases row with
    | nil => cases lf <;> simp +decide [csvRenderFields, csvEol, csvRun, csvChar, csvEolStep, csvFresh, nextIsLF]
    | cons f r =>
      have := csvRun_fields lf rest r f [] qs .startRecord false
        (.inr ⟨rfl, rfl, by rintro ⟨rfl, rfl, -⟩; exact hne rfl⟩)
      simpa [List.append_assoc, csvFresh] using this

/-- every field table, under every choice of the reference writer -/
theorem csvParse_csvRender (qss : List (List Bool)) (lf : Bool) (t : List (List Str)) :
    csvParse (csvRender qss lf t) = .ok t := by
  unfold csvParse
  induction t generalizing qss with
  | nil => simp [csvRender, csvRun, csvFresh]
  | cons r rs ih => simp only [csvRender]; rw [csvRun_row, ih, consRec_ok]

theorem csvTextRoundTrip_eq (r : Result) : csvTextRoundTrip r = csvRoundTrip r := by
  unfold csvTextRoundTrip csvRoundTrip
  cases toCsv r with
  | error e => rfl
  | ok t => simp only [csvWrite, csvParse_csvRender]

end RV.C16
