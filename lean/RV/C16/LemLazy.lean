import RV.C16.Model
/-
  C16 — the lazily evaluated result: whatever was consumed, materialised rows ++ pending rows is the full table.
-/
namespace RV.C16

/-- rows already in `_bindings` followed by the rows the generator still holds -/
def Lazy.all (s : Lazy) : List Row := s.mat ++ s.gen.getD []

theorem pull_all (k : Nat) (g mat out : List Row) : (pull k g mat out).1.all = mat ++ g := by
  induction g generalizing k mat out with
  | nil => cases k <;> simp [pull, Lazy.all]
  | cons b g ih =>
    cases k with
    | zero => simp [pull, Lazy.all]
    | succ k =>
      simp only [pull]
      split
      · rw [ih]; simp
      · rw [ih]; simp

theorem force_all (s : Lazy) : s.force.all = s.all := by
  unfold Lazy.force Lazy.all
  cases h : s.gen <;> simp [h]

theorem force_mat (s : Lazy) : s.force.mat = s.all := by
  unfold Lazy.force Lazy.all
  cases h : s.gen <;> simp [h]

theorem step_all (s : Lazy) (o : HOp) : (s.step o).1.all = s.all := by
  cases o with
  | force => simpa [Lazy.step] using force_all s
  | take k =>
    unfold Lazy.step
    cases h : s.gen with
    | none => simp
    | some g => simp only [pull_all]; simp [Lazy.all, h]

theorem run_all (s : Lazy) (ops : List HOp) : (s.run ops).all = s.all := by
  induction ops generalizing s with
  | nil => rfl
  | cons o os ih => simp only [Lazy.run]; rw [ih, step_all]

end RV.C16
