import RV.C16.Model
import RV.C16.Spec
/-
  C16 — `splitOn` / `joinWith` / line splitting.
-/
namespace RV.C16

theorem splitOn_ne_nil (sep : Char) (s : Str) : splitOn sep s ≠ [] := by
  induction s with
  | nil => simp [splitOn]
  | cons c cs ih =>
    unfold splitOn
    split
    · simp
    · split <;> simp

theorem splitOn_of_not_mem {sep : Char} {s : Str} (h : sep ∉ s) : splitOn sep s = [s] := by
  induction s with
  | nil => rfl
  | cons c cs ih =>
    have hc : c ≠ sep := fun e => h (by simp [e])
    have hcs : sep ∉ cs := fun e => h (by simp [e])
    simp [splitOn, hc, ih hcs]

theorem splitOn_append_sep {sep : Char} {p : Str} (h : sep ∉ p) (rest : Str) :
    splitOn sep (p ++ sep :: rest) = p :: splitOn sep rest := by
  induction p with
  | nil => simp [splitOn]
  | cons c cs ih =>
    have hc : c ≠ sep := fun e => h (by simp [e])
    have hcs : sep ∉ cs := fun e => h (by simp [e])
    simp [splitOn, hc, ih hcs]

/-- joining pieces that do not contain the separator and splitting again gives the pieces back -/
theorem splitOn_joinWith {sep : Char} {ps : List Str} (hne : ps ≠ []) (h : ∀ p ∈ ps, sep ∉ p) :
    splitOn sep (joinWith sep ps) = ps := by
  induction ps with
  | nil => exact absurd rfl hne
  | cons p qs ih =>
    cases qs with
    | nil => simpa [joinWith] using splitOn_of_not_mem (h p (by simp))
    | cons q qs =>
      have hp : sep ∉ p := h p (by simp)
      have := ih (by simp) (fun x hx => h x (by simp [hx]))
      simp only [joinWith]
      rw [splitOn_append_sep hp, this]

/-- every character of the string is the separator or lies in one of the pieces -/
theorem mem_splitOn {sep : Char} {s : Str} {c : Char} (h : c ∈ s) :
    c = sep ∨ ∃ p ∈ splitOn sep s, c ∈ p := by
  induction s with
  | nil => simp at h
  | cons d ds ih =>
    by_cases e : d = sep
    · rcases List.mem_cons.mp h with h | h
      · exact Or.inl (h.trans e)
      · rcases ih h with h | ⟨p, hp, hc⟩
        · exact Or.inl h
        · exact Or.inr ⟨p, by simp [splitOn, e, hp], hc⟩
    · have hne := splitOn_ne_nil sep ds
      cases hs : splitOn sep ds with
      | nil => exact absurd hs hne
      | cons p ps =>
        rcases List.mem_cons.mp h with h | h
        · exact Or.inr ⟨d :: p, by simp [splitOn, e, hs], by simp [h]⟩
        · rcases ih h with h | ⟨x, hx, hc⟩
          · exact Or.inl h
          · rw [hs] at hx
            rcases List.mem_cons.mp hx with hx | hx
            · exact Or.inr ⟨d :: p, by simp [splitOn, e, hs], by simp [← hx, hc]⟩
            · exact Or.inr ⟨x, by simp [splitOn, e, hs, hx], hc⟩

theorem mem_joinWith {sep : Char} {ps : List Str} {c : Char} (h : c ∈ joinWith sep ps) :
    c = sep ∨ ∃ p ∈ ps, c ∈ p := by
  induction ps with
  | nil => simp [joinWith] at h
  | cons p qs ih =>
    cases qs with
    | nil => exact Or.inr ⟨p, by simp, by simpa [joinWith] using h⟩
    | cons q qs =>
      simp only [joinWith, List.mem_append, List.mem_cons] at h
      rcases h with h | h | h
      · exact Or.inr ⟨p, by simp, h⟩
      · exact Or.inl h
      · rcases ih h with h | ⟨x, hx, hc⟩
        · exact Or.inl h
        · exact Or.inr ⟨x, by simp [hx], hc⟩

theorem joinWith_two_ne_nil (sep : Char) (p q : Str) (ps : List Str) : joinWith sep (p :: q :: ps) ≠ [] := by
  simp [joinWith]

theorem joinWith_ne_nil {sep : Char} {ps : List Str} (h : ∃ p ∈ ps, p ≠ []) : joinWith sep ps ≠ [] := by
  induction ps with
  | nil => simp at h
  | cons p qs ih =>
    cases qs with
    | nil => simpa [joinWith] using h
    | cons q qs => simp [joinWith]

/-! ### lines -/

open Spec.Tsv in
theorem splitOn_unlines {ls : List Str} (h : ∀ l ∈ ls, '\n' ∉ l) :
    splitOn '\n' (unlines ls) = ls ++ [[]] := by
  induction ls with
  | nil => rfl
  | cons l ls ih =>
    simp only [unlines]
    rw [splitOn_append_sep (h l (by simp)), ih (fun x hx => h x (by simp [hx]))]
    rfl

theorem dropLastEmpty_append (ls : List Str) : dropLastEmpty (ls ++ [[]]) = ls := by
  induction ls with
  | nil => rfl
  | cons l ls ih =>
    cases ls with
    | nil => simp [dropLastEmpty]
    | cons m ms => simpa [dropLastEmpty] using ih

open Spec.Tsv in
/-- a document of lines each ended by a line feed is read back as exactly those lines -/
theorem readLines_unlines {ls : List Str} (h : ∀ l ∈ ls, '\n' ∉ l) : readLines (unlines ls) = ls := by
  simp [readLines, splitOn_unlines h, dropLastEmpty_append]

/-! ### `strip` -/

theorem stripEnd_of_lastOk {s : Str} (h : lastOk (fun c => !pySpace c) s = true) : stripEnd s = s := by
  induction s with
  | nil => rfl
  | cons c cs ih =>
    cases cs with
    | nil =>
      have : pySpace c = false := by simpa [lastOk] using h
      simp [stripEnd, this]
    | cons d ds =>
      have := ih (by simpa [lastOk] using h)
      show (match stripEnd (d :: ds) with
        | [] => if pySpace c then [] else [c]
        | r => c :: r) = c :: d :: ds
      rw [this]

theorem lastOk_of_all {p : Char → Bool} {s : Str} (h : s.all p = true) : lastOk p s = true := by
  induction s with
  | nil => rfl
  | cons c cs ih =>
    have h' : p c = true ∧ cs.all p = true := by simpa using h
    cases cs with
    | nil => simpa [lastOk] using h'.1
    | cons d ds => simpa [lastOk] using ih h'.2

theorem lastOk_append {p : Char → Bool} (a : Str) {b : Str} (hb : b ≠ []) (h : lastOk p b = true) :
    lastOk p (a ++ b) = true := by
  induction a with
  | nil => simpa using h
  | cons c cs ih =>
    cases hcs : cs ++ b with
    | nil => simp [List.append_eq_nil_iff] at hcs; exact absurd hcs.2 hb
    | cons d ds =>
      show lastOk p (c :: (cs ++ b)) = true
      rw [hcs]; simp only [lastOk]; rw [← hcs]; exact ih

theorem lastOk_joinWith {p : Char → Bool} {sep : Char} {ps : List Str}
    (h : ∀ x ∈ ps, x ≠ [] ∧ lastOk p x = true) : lastOk p (joinWith sep ps) = true := by
  induction ps with
  | nil => rfl
  | cons x qs ih =>
    cases qs with
    | nil => simpa [joinWith] using (h x (by simp)).2
    | cons q qs =>
      have ih' := ih (fun y hy => h y (by simp [hy]))
      have hne : joinWith sep (q :: qs) ≠ [] := joinWith_ne_nil ⟨q, by simp, (h q (by simp)).1⟩
      simp only [joinWith]
      exact lastOk_append x (by simp) (by
        cases hj : joinWith sep (q :: qs) with
        | nil => exact absurd hj hne
        | cons d ds => simpa [lastOk, hj] using ih')

theorem pyStrip_eq {s : Str} (h1 : ∀ c cs, s = c :: cs → pySpace c = false)
    (h2 : lastOk (fun c => !pySpace c) s = true) : pyStrip s = s := by
  cases s with
  | nil => rfl
  | cons c cs =>
    have := h1 c cs rfl
    simp [pyStrip, List.dropWhile, this, stripEnd_of_lastOk h2]

end RV.C16
