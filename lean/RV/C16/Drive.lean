import RV.C16.Model
import RV.C16.Spec
import RV.C16.Text
import RV.C16.Doc
import RV.Base.Proto
/-
  C16 driver.  One operation per line, tokens separated by blanks.

  Strings: code points in decimal joined by `.`; the empty string is `-`.
  Cell:    U | I:<s> | B:<s> | P:<s> | T:<s>:<dt> | L:<s>:<tag>
  Result:  S <nv> <var>^nv <nr> <cell>^(nv*nr)        (row-major, rows aligned)   |   A 0|1
  Json:    n | t | f | d | s:<s> | a:<n> <json>^n | o:<n> (<key-s> <json>)^n      (prefix form)
  Xml:     e:<tag-s>:<na>:<nk>:<text-s> (<name-s> <value-s>)^na <xml>^nk          (prefix form)
  Table:   <nrows> (<nfields> <s>^nfields)^nrows
  Choices: <sq 0|1>:<short 0|1>:<k.k.k|-> one per cell, row-major

    json-rt <Result>            -> ok <Result> | err <Kind>      ofJson (toJson r)
    json-of <Json>              -> ok <Result> | err <Kind>      ofJson
    json-to <Result>            -> <Json>                        toJson
    xml-rt  <Result>            -> ok … | err …                  xmlRoundTrip (text level + tree level)
    xml-of  <Xml>               -> ok … | err …                  ofXml
    xml-to  <Result>            -> <Xml>                         toXml
    tsv-render <Result> <Choices> -> <s>                         Spec.Tsv.render
    tsv-read <s>                -> ok … | err …                  readTsv
    tsv-read-old <s>            -> ok … | err …                  readTsvOld (pre-fix reader, diagnostic)
    csv-rt  <Result>            -> ok … | err …                  ofCsv (toCsv r)
    csv-to  <Result>            -> <Table> | err …               toCsv
    csv-of  <Table>             -> ok … | err …                  ofCsv
    hist <0|1> <Result> | <k<n>|f>*  -> per op `T<n> cells…` (rows handed out by a fresh iterator advanced n times)
                                       or `F<len>`, joined by ` ; `, then ` | <Result>` = Result.bindings at the end
    mhist <0|1> <Result> | <o|n<i>|f>* -> several live iterators: per op `O` / `R cells…` / `X` / `F<len>`, then ` | <Result>`
    const <token>               -> <token>

  Text level (round g); every answer starts with `=` so that it is never empty:
    jstr-dumps <0|1> <s>*       -> = <s>*                         pyDumpsStr (ensure_ascii = 0|1), quotes included
    jstr-loads <s>*             -> = (ok:<s> | err:<Kind>)*       jsonLoadsStr on whole string tokens
    jstr-spell (<s>/<k.k.k|->)* -> = <s>*                         '"' ++ jsonSpell ks s ++ '"'
    xtext-write <s>*            -> = <s>*                         xmlWriteText (character data as `_characters` spells it)
    xdoc-texts-ascii <s>*       -> XTEXT <s>*                     xmlWriteTextEnc encAscii (what `encoding="ascii"` makes of character data)
    xattr-write <s>*            -> = <s>*                         quoteattr (quotes included)
    xdoc-texts / xdoc-attrs <s>* -> XTEXT <s>* / XATTR <s>*        the same, for the harness to assemble a document from
    xtext-read <s>*             -> = (ok:<s> | err:ParseError)*   xmlReadContent on the character data of one element
    xattr-read <s>*             -> = (ok:<s> | err:ParseError)*   xmlReadAttr on a quoted attribute value
    jdoc-parse <s>              -> ok <Json> | err:<Kind>         jsonParse (a whole JSON document)
    jdoc-of <s>                 -> ok <Result> | err:<Kind>       ofJson (jsonParse text)
    jdoc-write <Result>         -> JDOC <s>                       jsonWrite (toJson r)
    jdoc-dumps <Json>           -> = <s>                          jsonWrite
    ctext-parse <s>             -> ok <Table> | err:<Kind>        csvParse (a whole CSV document)
    ctext-of <s>                -> ok <Result> | err:<Kind>       ofCsv (csvParse text)
    ctext-write <Result>        -> CTEXT <s> | err:<Kind>         csvWrite (toCsv r)
    ctext-render <lf> <nrows> (<nfields> (<q>:<s>)^nfields)^nrows -> = <s>     csvRender (reference writer with choices)
-/
open RV RV.C16 RV.Proto

def decStr (w : String) : Option Str :=
  if w = "-" then some [] else (w.splitOn ".").mapM (fun d => d.toNat?.map Char.ofNat)

def encStr (s : Str) : String :=
  if s.isEmpty then "-" else ".".intercalate (s.map (fun c => toString c.toNat))

def decCell (w : String) : Option Cell :=
  match w.splitOn ":" with
  | ["U"] => some none
  | ["I", s] => (decStr s).map (fun x => some (.iri x))
  | ["B", s] => (decStr s).map (fun x => some (.bnode x))
  | ["P", s] => (decStr s).map (fun x => some (.plain x))
  | ["T", s, d] => do let x ← decStr s; let y ← decStr d; pure (some (.typed x y))
  | ["L", s, l] => do let x ← decStr s; let y ← decStr l; pure (some (.lang x y))
  | _ => none

def encCell : Cell → String
  | none => "U"
  | some (.iri s) => "I:" ++ encStr s
  | some (.bnode s) => "B:" ++ encStr s
  | some (.plain s) => "P:" ++ encStr s
  | some (.typed s d) => "T:" ++ encStr s ++ ":" ++ encStr d
  | some (.lang s l) => "L:" ++ encStr s ++ ":" ++ encStr l

def takeN {α} (f : String → Option α) : Nat → List String → Option (List α × List String)
  | 0, ws => some ([], ws)
  | _ + 1, [] => none
  | n + 1, w :: ws => do
    let x ← f w
    let (xs, rest) ← takeN f n ws
    pure (x :: xs, rest)

def chunk {α} (n : Nat) : Nat → List α → List (List α)
  | 0, _ => []
  | k + 1, xs => xs.take n :: chunk n k (xs.drop n)

def decResult : List String → Option (Result × List String)
  | "A" :: b :: rest => if b = "1" then some (.ask true, rest) else if b = "0" then some (.ask false, rest) else none
  | "S" :: nv :: ws => do
    let nv ← nv.toNat?
    let (vars, ws) ← takeN decStr nv ws
    match ws with
    | nr :: ws =>
      let nr ← nr.toNat?
      let (cells, rest) ← takeN decCell (nv * nr) ws
      pure (.select vars (chunk nv nr cells), rest)
    | [] => none
  | _ => none

def encResult : Result → String
  | .ask b => "A " ++ (if b then "1" else "0")
  | .select vars rows =>
    " ".intercalate (["S", toString vars.length] ++ vars.map encStr ++ [toString rows.length]
      ++ (rows.map (fun r => (alignCells vars.length r).map encCell)).flatten)

def encErr : Err → String
  | .parse => "ParseError" | .key => "KeyError" | .type => "TypeError" | .value => "ValueError"
  | .notImpl => "NotImplementedError" | .result => "ResultException" | .index => "IndexError"
  | .attr => "AttributeError" | .unmodelled => "Unmodelled"

def encOut : Except Err Result → String
  | .ok r => "ok " ++ encResult r
  | .error e => "err:" ++ encErr e

partial def decJson : List String → Option (Json × List String)
  | [] => none
  | w :: ws =>
    match w.splitOn ":" with
    | ["n"] => some (.null, ws)
    | ["t"] => some (.bool true, ws)
    | ["f"] => some (.bool false, ws)
    | ["d"] => some (.num, ws)
    | ["s", s] => (decStr s).map (fun x => (.str x, ws))
    | ["a", n] => do
      let n ← n.toNat?
      let rec items (k : Nat) (ws : List String) (acc : List Json) : Option (List Json × List String) :=
        match k with
        | 0 => some (acc.reverse, ws)
        | k + 1 => do let (j, ws) ← decJson ws; items k ws (j :: acc)
      let (xs, ws) ← items n ws []
      pure (.arr xs, ws)
    | ["o", n] => do
      let n ← n.toNat?
      let rec pairs (k : Nat) (ws : List String) (acc : List (Str × Json)) : Option (List (Str × Json) × List String) :=
        match k with
        | 0 => some (acc.reverse, ws)
        | k + 1 =>
          match ws with
          | kw :: ws => do let key ← decStr kw; let (j, ws) ← decJson ws; pairs k ws ((key, j) :: acc)
          | [] => none
      let (kvs, ws) ← pairs n ws []
      pure (.obj kvs, ws)
    | _ => none

partial def encJson : Json → List String
  | .null => ["n"]
  | .bool true => ["t"]
  | .bool false => ["f"]
  | .num => ["d"]
  | .str s => ["s:" ++ encStr s]
  | .arr xs => ("a:" ++ toString xs.length) :: (xs.map encJson).flatten
  | .obj kvs => ("o:" ++ toString kvs.length) :: (kvs.map (fun (k, v) => encStr k :: encJson v)).flatten

partial def decXml : List String → Option (Xml × List String)
  | [] => none
  | w :: ws =>
    match w.splitOn ":" with
    | ["e", tag, na, nk, text] => do
      let tag ← decStr tag
      let na ← na.toNat?
      let nk ← nk.toNat?
      let text ← decStr text
      let (avs, ws) ← takeN decStr (2 * na) ws
      let rec pair : List Str → List (Str × Str)
        | a :: b :: r => (a, b) :: pair r
        | _ => []
      let rec kids (k : Nat) (ws : List String) (acc : List Xml) : Option (List Xml × List String) :=
        match k with
        | 0 => some (acc.reverse, ws)
        | k + 1 => do let (x, ws) ← decXml ws; kids k ws (x :: acc)
      let (ks, ws) ← kids nk ws []
      pure (.node tag (pair avs) text ks, ws)
    | _ => none

partial def encXml : Xml → List String
  | .node tag attrs text kids =>
    (":".intercalate ["e", encStr tag, toString attrs.length, toString kids.length, encStr text])
      :: ((attrs.map (fun (a, v) => [encStr a, encStr v])).flatten ++ (kids.map encXml).flatten)

def decTable (ws : List String) : Option (List (List Str)) :=
  match ws with
  | [] => none
  | n :: ws => do
    let n ← n.toNat?
    let rec rows (k : Nat) (ws : List String) (acc : List (List Str)) : Option (List (List Str)) :=
      match k with
      | 0 => if ws.isEmpty then some acc.reverse else none
      | k + 1 =>
        match ws with
        | m :: ws => do
          let m ← m.toNat?
          let (fs, ws) ← takeN decStr m ws
          rows k ws (fs :: acc)
        | [] => none
    rows n ws []

def encTable (t : List (List Str)) : String :=
  " ".intercalate (toString t.length :: (t.map (fun r => toString r.length :: r.map encStr)).flatten)

def decChoice (w : String) : Option Spec.Tsv.CellChoice :=
  match w.splitOn ":" with
  | [a, b, ks] => do
    let ks ← if ks = "-" then some [] else (ks.splitOn ".").mapM String.toNat?
    pure { sq := a = "1", short := b = "1", chars := ks }
  | _ => none

def decHOp (w : String) : Option HOp :=
  if w = "f" then some .force
  else if w.startsWith "k" then (w.drop 1).toNat?.map .take
  else none

def decMOp (w : String) : Option MOp :=
  if w = "f" then some .force
  else if w = "o" then some .openIt
  else if w.startsWith "n" then (w.drop 1).toNat?.map .next
  else none

def decSpell (w : String) : Option (Str × List Nat) :=
  match w.splitOn "/" with
  | [s, ks] => do
    let s ← decStr s
    let ks ← if ks = "-" then some [] else (ks.splitOn ".").mapM String.toNat?
    pure (s, ks)
  | _ => none

def decQField (w : String) : Option (Bool × Str) :=
  match w.splitOn ":" with
  | [q, s] => (decStr s).map (fun x => (q = "1", x))
  | _ => none

def decQRows : Nat → List String → List (List (Bool × Str)) → Option (List (List (Bool × Str)))
  | 0, ws, acc => if ws.isEmpty then some acc.reverse else none
  | k + 1, m :: ws, acc => do
    let m ← m.toNat?
    let (fs, ws) ← takeN decQField m ws
    decQRows k ws (fs :: acc)
  | _ + 1, [], _ => none

def mapStrs (tag : String) (ws : List String) (f : Str → String) : String :=
  match ws.mapM decStr with
  | some ss => " ".intercalate (tag :: ss.map f)
  | none => "bad-op"

def withResult (ws : List String) (f : Result → String) : String :=
  match decResult ws with
  | some (r, []) => f r
  | _ => "bad-op"

def step (_ : Unit) : List String → Unit × String
  | "json-rt" :: ws => ((), withResult ws (fun r => encOut (ofJson (toJson r))))
  | "json-to" :: ws => ((), withResult ws (fun r => " ".intercalate (encJson (toJson r))))
  | "json-of" :: ws =>
    match decJson ws with
    | some (j, []) => ((), encOut (ofJson j))
    | _ => ((), "bad-op")
  | "xml-rt" :: ws => ((), withResult ws (fun r => encOut (xmlRoundTrip r)))
  | "xml-to" :: ws => ((), withResult ws (fun r => " ".intercalate (encXml (toXml r))))
  | "xml-of" :: ws =>
    match decXml ws with
    | some (x, []) => ((), encOut (ofXml x))
    | _ => ((), "bad-op")
  | "tsv-render" :: ws =>
    match decResult ws with
    | some (.select vars rows, cw) =>
      match cw.mapM decChoice with
      | some chs =>
        if chs.length = vars.length * rows.length then
          ((), encStr (Spec.Tsv.render (chunk vars.length rows.length chs) vars rows))
        else ((), "bad-op")
      | none => ((), "bad-op")
    | _ => ((), "bad-op")
  | ["tsv-read", s] =>
    match decStr s with
    | some t => ((), encOut (readTsv t))
    | none => ((), "bad-op")
  | ["tsv-read-old", s] =>
    match decStr s with
    | some t => ((), encOut (readTsvOld t))
    | none => ((), "bad-op")
  | "csv-rt" :: ws => ((), withResult ws (fun r => encOut (csvRoundTrip r)))
  | "csv-to" :: ws =>
    ((), withResult ws (fun r => match toCsv r with | .ok t => encTable t | .error e => "err:" ++ encErr e))
  | "csv-of" :: ws =>
    match decTable ws with
    | some t => ((), encOut (ofCsv t))
    | none => ((), "bad-op")
  | "hist" :: lz :: ws =>
    -- hist <0|1 lazy> <Result> | <op>* : per op what the caller saw, then the table `Result.bindings` ends with
    match decResult ws with
    | some (.select vars rows, "|" :: ops) =>
      match ops.mapM decHOp with
      | some ops =>
        let init : Lazy := if lz = "1" then ⟨[], some rows⟩ else ⟨rows, none⟩
        let rec go (s : Lazy) (os : List HOp) (acc : List String) : Lazy × List String :=
          match os with
          | [] => (s, acc.reverse)
          | o :: os =>
            let (s', seen) := s.step o
            let line := match o with
              | .take _ => " ".intercalate (("T" ++ toString seen.length) :: (seen.map (fun r => (alignCells vars.length r).map encCell)).flatten)
              | .force => "F" ++ toString seen.length
            go s' os (line :: acc)
        let (s, segs) := go init ops []
        ((), " ; ".intercalate segs ++ " | " ++ encResult (.select vars s.force.mat))
      | none => ((), "bad-op")
    | _ => ((), "bad-op")
  | "mhist" :: lz :: ws =>
    match decResult ws with
    | some (.select vars rows, "|" :: ops) =>
      match ops.mapM decMOp with
      | some ops =>
        let init : Multi := if lz = "1" then Multi.lazy rows else Multi.listed rows
        let (s, outs) := init.run ops
        let show1 : MOut → String
          | .opened => "O"
          | .row r _ => " ".intercalate ("R" :: (alignCells vars.length r).map encCell)
          | .stop => "X"
          | .size n => "F" ++ toString n
          | .bad => "bad"
        ((), " ; ".intercalate (outs.map show1) ++ " | " ++ encResult (.select vars s.force.mat))
      | none => ((), "bad-op")
    | _ => ((), "bad-op")
  | "jstr-dumps" :: a :: ws =>
    match ws.mapM decStr with
    | some ss => ((), " ".intercalate ("=" :: ss.map (fun s => encStr (pyDumpsStr (a = "1") s))))
    | none => ((), "bad-op")
  | "jstr-loads" :: ws =>
    match ws.mapM decStr with
    | some ss => ((), " ".intercalate ("=" :: ss.map (fun s =>
        match jsonLoadsStr s with | .ok x => "ok:" ++ encStr x | .error e => "err:" ++ encErr e)))
    | none => ((), "bad-op")
  | "jstr-spell" :: ws =>
    match ws.mapM decSpell with
    | some ps => ((), " ".intercalate ("=" :: ps.map (fun (s, ks) => encStr ('"' :: (jsonSpell ks s ++ ['"'])))))
    | none => ((), "bad-op")
  | "xtext-write" :: ws => ((), mapStrs "=" ws (fun s => encStr (xmlWriteText s)))
  | "xattr-write" :: ws => ((), mapStrs "=" ws (fun s => encStr (quoteattr s)))
  | "xdoc-texts" :: ws => ((), mapStrs "XTEXT" ws (fun s => encStr (xmlWriteText s)))
  | "echo" :: ws => ((), " ".intercalate ws)
  | "xdoc-texts-ascii" :: ws => ((), mapStrs "XTEXT" ws (fun s => encStr (xmlWriteTextEnc encAscii s)))
  | "xdoc-attrs" :: ws => ((), mapStrs "XATTR" ws (fun s => encStr (quoteattr s)))
  | "xtext-read" :: ws => ((), mapStrs "=" ws (fun s =>
      match xmlReadContent (s ++ ['<']) with
      | some (x, ['<']) => "ok:" ++ encStr x
      | _ => "err:ParseError"))
  | "xattr-read" :: ws => ((), mapStrs "=" ws (fun s =>
      match xmlReadAttr s with
      | some (x, []) => "ok:" ++ encStr x
      | _ => "err:ParseError"))
  | ["jdoc-parse", w] =>
    match decStr w with
    | some t => ((), match jsonParse t with | .ok j => " ".intercalate ("ok" :: encJson j) | .error e => "err:" ++ encErr e)
    | none => ((), "bad-op")
  | ["jdoc-of", w] =>
    match decStr w with
    | some t => ((), match jsonParse t with | .ok j => encOut (ofJson j) | .error e => "err:" ++ encErr e)
    | none => ((), "bad-op")
  | "jdoc-write" :: ws => ((), withResult ws (fun r => "JDOC " ++ encStr (jsonWrite (toJson r))))
  | "jdoc-dumps" :: ws =>
    match decJson ws with
    | some (j, []) => ((), "= " ++ encStr (jsonWrite j))
    | _ => ((), "bad-op")
  | ["ctext-parse", w] =>
    match decStr w with
    | some t => ((), match csvParse t with | .ok tb => "ok " ++ encTable tb | .error e => "err:" ++ encErr e)
    | none => ((), "bad-op")
  | ["ctext-of", w] =>
    match decStr w with
    | some t => ((), match csvParse t with | .ok tb => encOut (ofCsv tb) | .error e => "err:" ++ encErr e)
    | none => ((), "bad-op")
  | "ctext-write" :: ws =>
    ((), withResult ws (fun r => match toCsv r with | .ok t => "CTEXT " ++ encStr (csvWrite t) | .error e => "err:" ++ encErr e))
  | "ctext-render" :: lf :: n :: ws =>
    match n.toNat? with
    | some n =>
      match decQRows n ws [] with
      | some rows => ((), "= " ++ encStr (csvRender (rows.map (·.map (·.1))) (lf = "1") (rows.map (·.map (·.2)))))
      | none => ((), "bad-op")
    | none => ((), "bad-op")
  | ["const", w] => ((), w)
  | _ => ((), "bad-op")

def main : IO Unit := RV.Proto.run step ()
