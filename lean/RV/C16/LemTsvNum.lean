import RV.C16.LemSplit
/-
  C16 — bare numeric tokens: the reader's first-match classification (`DOUBLE | DECIMAL | INTEGER`)
  returns the datatype whose production the token matches.
-/
namespace RV.C16
open Spec.Tsv

/-- characters of bare numeric tokens -/
def bareChar (c : Char) : Bool := isDigit c || c == '.' || isExpChar c || c == '+' || c == '-'

theorem isDigit_bare {c : Char} (h : isDigit c = true) : bareChar c = true := by simp [bareChar, h]

theorem isDigit_not_exp {c : Char} (h : isDigit c = true) : isExpChar c = false := by
  cases he : isExpChar c with
  | false => rfl
  | true =>
    have : c = 'e' ∨ c = 'E' := by simpa [isExpChar] using he
    rcases this with rfl | rfl <;> exact absurd h (by decide)

theorem isDigit_ne_dot {c : Char} (h : isDigit c = true) : c ≠ '.' := by
  intro e; subst e; exact absurd h (by decide)

theorem dot_not_exp : isExpChar '.' = false := by decide

theorem dropWhile_nonExp_nil {u : Str} (h : ∀ c ∈ u, isExpChar c = false) :
    u.dropWhile (fun c => !isExpChar c) = [] := by
  induction u with
  | nil => rfl
  | cons c cs ih =>
    simp [List.dropWhile, h c (by simp), ih (fun x hx => h x (by simp [hx]))]

theorem isDouble_false_of_noExp {u : Str} (h : ∀ c ∈ u, isExpChar c = false) : isDouble u = false := by
  simp [isDouble, dropWhile_nonExp_nil h, isExponent]

theorem all_of_nonemptyAll {p : Char → Bool} {s : Str} (h : nonemptyAll p s = true) : s ≠ [] ∧ s.all p = true := by
  cases s with
  | nil => simp [nonemptyAll] at h
  | cons c cs => simpa [nonemptyAll] using h

theorem isInteger_facts {u : Str} (h : isInteger u = true) : u ≠ [] ∧ ∀ c ∈ u, isDigit c = true := by
  have := all_of_nonemptyAll h
  exact ⟨this.1, fun c hc => (List.all_eq_true.mp this.2) c hc⟩

theorem isInteger_not_double {u : Str} (h : isInteger u = true) : isDouble u = false :=
  isDouble_false_of_noExp (fun c hc => isDigit_not_exp ((isInteger_facts h).2 c hc))

theorem isInteger_not_decimal {u : Str} (h : isInteger u = true) : isDecimal u = false := by
  have hn : '.' ∉ u := fun hm => isDigit_ne_dot ((isInteger_facts h).2 _ hm) rfl
  simp [isDecimal, splitOn_of_not_mem hn]

theorem isDecimal_split {u : Str} (h : isDecimal u = true) :
    ∃ a b, splitOn '.' u = [a, b] ∧ a.all isDigit = true ∧ nonemptyAll isDigit b = true := by
  unfold isDecimal at h
  split at h
  · next a b heq => exact ⟨a, b, heq, by simpa using h⟩
  · simp at h

theorem isDecimal_facts {u : Str} (h : isDecimal u = true) :
    u ≠ [] ∧ ∀ c ∈ u, isDigit c = true ∨ c = '.' := by
  obtain ⟨a, b, hs, ha, hb⟩ := isDecimal_split h
  constructor
  · intro e; subst e; simp [splitOn] at hs
  · intro c hc
    rcases mem_splitOn (sep := '.') hc with h | ⟨p, hp, hcp⟩
    · exact Or.inr h
    · rw [hs] at hp
      simp only [List.mem_cons, List.not_mem_nil, or_false] at hp
      rcases hp with rfl | rfl
      · exact Or.inl (List.all_eq_true.mp ha c hcp)
      · exact Or.inl (List.all_eq_true.mp (all_of_nonemptyAll hb).2 c hcp)

theorem isDecimal_not_double {u : Str} (h : isDecimal u = true) : isDouble u = false :=
  isDouble_false_of_noExp (fun c hc => by
    rcases (isDecimal_facts h).2 c hc with h | rfl
    · exact isDigit_not_exp h
    · exact dot_not_exp)

theorem xsd_distinct :
    xsdInteger ≠ xsdDecimal ∧ xsdInteger ≠ xsdDouble ∧ xsdDecimal ≠ xsdDouble ∧ xsdBoolean ≠ xsdInteger
    ∧ xsdBoolean ≠ xsdDecimal ∧ xsdBoolean ≠ xsdDouble := by decide

/-- the token matches the production of its datatype ⇒ first-match classification finds that datatype -/
theorem classify_of_numOk {u d : Str} (h : numOk u d = true) : classifyUnsigned u = some d := by
  obtain ⟨h1, h2, h3, -⟩ := xsd_distinct
  simp only [numOk, Bool.or_eq_true, Bool.and_eq_true, beq_iff_eq] at h
  rcases h with (⟨rfl, hi⟩ | ⟨rfl, hd⟩) | ⟨rfl, hb⟩
  · simp [classifyUnsigned, isInteger_not_double hi, isInteger_not_decimal hi, hi]
  · simp [classifyUnsigned, isDecimal_not_double hd, hd]
  · simp [classifyUnsigned, hb]

/-! ### the characters of a bare token -/

theorem isExponent_bare : ∀ {e : Str}, isExponent e = true → e ≠ [] ∧ ∀ c ∈ e, bareChar c = true
  | [], h => by simp [isExponent] at h
  | [c], h => by simp [isExponent] at h
  | c :: s :: r', h => by
    simp only [isExponent, Bool.and_eq_true] at h
    obtain ⟨hc, hr⟩ := h
    refine ⟨by simp, ?_⟩
    intro x hx
    simp only [List.mem_cons] at hx
    by_cases hs : (s == '+' || s == '-') = true
    · rw [if_pos hs] at hr
      rcases hx with rfl | rfl | hx
      · simp [bareChar, hc]
      · simp only [Bool.or_eq_true, beq_iff_eq] at hs
        rcases hs with rfl | rfl <;> decide
      · exact isDigit_bare (List.all_eq_true.mp (all_of_nonemptyAll hr).2 x hx)
    · rw [if_neg hs] at hr
      rcases hx with rfl | hx
      · simp [bareChar, hc]
      · exact isDigit_bare (List.all_eq_true.mp (all_of_nonemptyAll hr).2 x (by simpa using hx))

theorem isMantissa_bare {m : Str} (h : isMantissa m = true) : ∀ c ∈ m, bareChar c = true := by
  intro c hc
  rcases mem_splitOn (sep := '.') hc with rfl | ⟨p, hp, hcp⟩
  · decide
  · unfold isMantissa at h
    split at h
    · next a heq =>
      rw [heq] at hp
      simp only [List.mem_cons, List.not_mem_nil, or_false] at hp
      subst hp
      exact isDigit_bare (List.all_eq_true.mp (all_of_nonemptyAll h).2 c hcp)
    · next a b heq =>
      rw [heq] at hp
      simp only [List.mem_cons, List.not_mem_nil, or_false] at hp
      simp only [Bool.or_eq_true, Bool.and_eq_true] at h
      rcases hp with rfl | rfl
      · rcases h with ⟨ha, _⟩ | ⟨ha, _⟩
        · exact isDigit_bare (List.all_eq_true.mp (all_of_nonemptyAll ha).2 c hcp)
        · have : p = [] := by simpa using ha
          subst this; simp at hcp
      · rcases h with ⟨_, hb⟩ | ⟨_, hb⟩
        · exact isDigit_bare (List.all_eq_true.mp hb c hcp)
        · exact isDigit_bare (List.all_eq_true.mp (all_of_nonemptyAll hb).2 c hcp)
    · simp at h

theorem isDouble_facts {u : Str} (h : isDouble u = true) : u ≠ [] ∧ ∀ c ∈ u, bareChar c = true := by
  simp only [isDouble, Bool.and_eq_true] at h
  obtain ⟨hm, he⟩ := h
  have hu : u = u.takeWhile (fun c => !isExpChar c) ++ u.dropWhile (fun c => !isExpChar c) :=
    (List.takeWhile_append_dropWhile).symm
  constructor
  · intro e
    have := (isExponent_bare he).1
    subst e; simp at this
  · intro c hc
    rw [hu] at hc
    rcases List.mem_append.mp hc with hc | hc
    · exact isMantissa_bare hm c hc
    · exact (isExponent_bare he).2 c hc

theorem numOk_facts {u d : Str} (h : numOk u d = true) : u ≠ [] ∧ ∀ c ∈ u, bareChar c = true := by
  simp only [numOk, Bool.or_eq_true, Bool.and_eq_true, beq_iff_eq] at h
  rcases h with (⟨_, hi⟩ | ⟨_, hd⟩) | ⟨_, hb⟩
  · exact ⟨(isInteger_facts hi).1, fun c hc => isDigit_bare ((isInteger_facts hi).2 c hc)⟩
  · refine ⟨(isDecimal_facts hd).1, fun c hc => ?_⟩
    rcases (isDecimal_facts hd).2 c hc with h | rfl
    · exact isDigit_bare h
    · decide
  · exact isDouble_facts hb

end RV.C16
