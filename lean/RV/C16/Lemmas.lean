import RV.C16.LemJson
import RV.C16.LemXml
import RV.C16.LemCsv
import RV.C16.LemLazy
import RV.C16.LemMulti
import RV.C16.LemTextJson
import RV.C16.LemTextCsv
import RV.C16.LemTextXml
import RV.C16.LemDoc
/-
  C16 — helper lemmas, split by format:
    LemJson    binding dicts vs aligned rows, `parseJsonTerm ∘ termToJSON`
    LemXml     tree level and the text level (`wireText`)
    LemSplit   `splitOn` / `joinWith` / `readLines` / `strip`
    LemTsvStr  string escape codec, IRIREF scanning
    LemTsvNum  bare numeric tokens
    LemTsvCell one cell; no tab / line feed inside a rendered cell
    LemTsvDoc  header, lines, rows, document
    LemCsv     CSV fields
    LemLazy    the lazily evaluated Result: materialised ++ pending is invariant
    LemTextJson  (round g) JSON string tokens: `scanstring` undoes every RFC 8259 spelling
    LemTextCsv   (round g) CSV text: the `csv.reader` state machine undoes `csv.writer` and every RFC 4180 rendering
    LemTextXml   (round g) XML text: an XML 1.0 parser undoes `escape` / `_characters` / `quoteattr`
    LemDoc       (round h) the JSON document: `json.loads` undoes `json.dumps` on every number-free tree
    LemMulti   several live iterators over one Result: the same invariant; what the generator-reading iterators hand out
-/
