import RV.C16.Model
import RV.C16.Spec
namespace RV.C16
end RV.C16
