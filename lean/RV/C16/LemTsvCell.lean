import RV.C16.LemTsvStr
import RV.C16.LemTsvNum
import RV.C16.LemJson
/-
  C16 — one TSV cell: the reader gives back the term under every rendering choice, and a rendered
  cell contains neither a tab nor a line feed.
-/
namespace RV.C16
open Spec.Tsv

/-- a term with a TSV spelling: IRIs (also datatypes) within IRIREF, labels within BLANK_NODE_LABEL,
    language tags within LANGTAG -/
def tsvTermOk : Term → Bool
  | .iri s => s.all iriChar
  | .bnode l => validLabel l
  | .plain _ => true
  | .typed _ d => d.all iriChar
  | .lang _ l => validLang l

theorem sTrue_eq : sTrue = ['t', 'r', 'u', 'e'] := by decide
theorem sFalse_eq : sFalse = ['f', 'a', 'l', 's', 'e'] := by decide

theorem quote_cases (ch : CellChoice) : quote ch = '"' ∨ quote ch = '\'' := by
  unfold quote; split <;> simp

/-! ### reading -/

theorem readLiteral_plain {q : Char} (hq : q = '"' ∨ q = '\'') (ks : List Nat) (s : Str) :
    readLiteral q (escStr q ks s ++ [q]) = .ok (.plain s) := by
  simp [readLiteral, scanStr_escStr hq]

theorem readLiteral_lang {q : Char} (hq : q = '"' ∨ q = '\'') (ks : List Nat) (s l : Str)
    (hl : validLang l = true) :
    readLiteral q (escStr q ks s ++ q :: '@' :: l) = .ok (.lang s l) := by
  simp [readLiteral, scanStr_escStr hq, hl, mkLiteral_lang hl]

theorem readLiteral_typed {q : Char} (hq : q = '"' ∨ q = '\'') (ks : List Nat) (s d : Str)
    (hd : d.all iriChar = true) :
    readLiteral q (escStr q ks s ++ q :: '^' :: '^' :: '<' :: (d ++ ['>'])) = .ok (.typed s d) := by
  simp [readLiteral, scanStr_escStr hq, scanIri_append hd]

theorem readCell_quote {q : Char} (hq : q = '"' ∨ q = '\'') (r : Str) :
    readCell (q :: r) = (readLiteral q r).map some := by
  simp [readCell, hq]

theorem bareChar_head {c : Char} (h : bareChar c = true) :
    c ≠ '"' ∧ c ≠ '\'' ∧ c ≠ '<' ∧ c ≠ '_' ∧ c ≠ 't' ∧ c ≠ 'f' ∧ c ≠ '\t' ∧ c ≠ '\n' := by
  refine ⟨?_, ?_, ?_, ?_, ?_, ?_, ?_, ?_⟩ <;> (intro e; subst e; revert h; decide)

theorem readCell_bare {c : Char} {u : Str} (h : bareChar c = true) : readCell (c :: u) = readBare (c :: u) := by
  obtain ⟨h1, h2, h3, h4, -⟩ := bareChar_head h
  simp [readCell, h1, h2, h3, h4]

theorem readBare_num {c : Char} {u : Str} (h : bareChar c = true) :
    readBare (c :: u) = match readNumeric (c :: u) with | some t => .ok (some t) | none => .error .parse := by
  obtain ⟨-, -, -, -, h5, h6, -⟩ := bareChar_head h
  simp only [readBare, sTrue_eq, sFalse_eq, List.cons.injEq, h5, h6, false_and, if_false]
  cases readNumeric (c :: u) <;> rfl

/-- a bare token the W3C syntax allows for `"s"^^<d>` is read as exactly that literal -/
theorem readCell_short {s d : Str} (h : shortOk s d = true) : readCell s = .ok (some (.typed s d)) := by
  simp only [shortOk, Bool.or_eq_true, Bool.and_eq_true, beq_iff_eq] at h
  rcases h with ⟨rfl, rfl | rfl⟩ | h
  · rfl
  · rfl
  · cases s with
    | nil => simp at h
    | cons c u =>
      simp only at h
      split_ifs at h with h1 h2
      · subst h2
        have hb : bareChar '-' = true := by decide
        rw [readCell_bare hb, readBare_num hb]
        simp +decide [readNumeric, classify_of_numOk h]
      · have hb : bareChar c = true := (numOk_facts h).2 c (by simp)
        rw [readCell_bare hb, readBare_num hb]
        simp [readNumeric, h1, h2, classify_of_numOk h]

theorem readCell_renderCell (ch : CellChoice) {t : Term} (h : tsvTermOk t = true) :
    readCell (renderCell ch (some t)) = .ok (some t) := by
  have hq := quote_cases ch
  cases t with
  | iri s =>
    have : s.all iriChar = true := h
    simp +decide [renderCell, readCell, scanIri_append this]
  | bnode l =>
    have : validLabel l = true := h
    simp +decide [renderCell, readCell, this]
  | plain s =>
    simp only [renderCell, quoted]
    rw [readCell_quote hq, readLiteral_plain hq]; rfl
  | lang s l =>
    have hl : validLang l = true := h
    simp only [renderCell, quoted, List.cons_append, List.append_assoc, List.nil_append]
    rw [readCell_quote hq, readLiteral_lang hq _ _ _ hl]; rfl
  | typed s d =>
    have hd : d.all iriChar = true := h
    simp only [renderCell]
    split_ifs with hs
    · exact readCell_short (by simp only [Bool.and_eq_true] at hs; exact hs.2)
    · simp only [quoted, List.cons_append, List.append_assoc, List.nil_append]
      rw [readCell_quote hq, readLiteral_typed hq _ _ _ hd]; rfl

/-! ### no tab, no line feed inside a rendered cell -/

def clean (c : Char) : Prop := c ≠ '\t' ∧ c ≠ '\n'

theorem clean_of {p : Char → Bool} (hp : p '\t' = false ∧ p '\n' = false) {c : Char} (h : p c = true) : clean c := by
  constructor <;> (intro e; subst e; simp [hp] at h)

theorem iriChar_clean {c : Char} (h : iriChar c = true) : clean c := clean_of (by decide) h
theorem bareChar_clean {c : Char} (h : bareChar c = true) : clean c := clean_of (by decide) h
theorem isAlnum_clean {c : Char} (h : isAlnum c = true) : clean c := clean_of (by decide) h
theorem isAlpha_clean {c : Char} (h : isAlpha c = true) : clean c := clean_of (by decide) h
theorem labelChar_clean {c : Char} (h : (pnChars c || c == '.') = true) : clean c :=
  clean_of (p := fun c => pnChars c || c == '.') (by decide) h
theorem varTail_clean {c : Char} (h : varTail c = true) : clean c := clean_of (by decide) h

theorem hexDigit_clean (lower : Bool) : ∀ d : Fin 16, hexDigit lower d ≠ '\t' ∧ hexDigit lower d ≠ '\n' := by
  cases lower <;> decide

theorem hex4_clean (lower : Bool) (n : Nat) : ∀ x ∈ hex4 lower n, clean x := by
  intro x hx
  simp only [hex4, List.mem_cons, List.not_mem_nil, or_false] at hx
  rcases hx with rfl | rfl | rfl | rfl
  · exact hexDigit_clean lower ⟨n / 4096 % 16, Nat.mod_lt _ (by decide)⟩
  · exact hexDigit_clean lower ⟨n / 256 % 16, Nat.mod_lt _ (by decide)⟩
  · exact hexDigit_clean lower ⟨n / 16 % 16, Nat.mod_lt _ (by decide)⟩
  · exact hexDigit_clean lower ⟨n % 16, Nat.mod_lt _ (by decide)⟩

theorem uchar_clean (lower : Bool) (c : Char) : ∀ x ∈ uchar lower c, clean x := by
  intro x hx
  unfold uchar at hx
  split at hx
  · simp only [List.mem_cons] at hx
    rcases hx with rfl | rfl | hx
    · constructor <;> decide
    · constructor <;> decide
    · exact hex4_clean lower _ x hx
  · simp only [List.mem_cons, List.mem_append] at hx
    rcases hx with rfl | rfl | hx | hx
    · constructor <;> decide
    · constructor <;> decide
    · exact hex4_clean lower _ x hx
    · exact hex4_clean lower _ x hx

theorem escChar_clean {q : Char} (hq : q = '"' ∨ q = '\'') (k : Nat) (c : Char) : ∀ x ∈ escChar q k c, clean x := by
  have hqc : clean q := by rcases hq with rfl | rfl <;> (constructor <;> decide)
  have bs : clean '\\' := by constructor <;> decide
  unfold escChar
  intro x hx
  split_ifs at hx with h1 h2 h3 h4 h5 h6 h7 h8 h9 h10 h11 h12
  · simp only [List.mem_cons, List.not_mem_nil, or_false] at hx
    rcases hx with rfl | rfl
    · exact bs
    · exact hqc
  · simp only [List.mem_cons, List.not_mem_nil, or_false] at hx
    rcases hx with rfl | rfl <;> exact bs
  · simp only [List.mem_cons, List.not_mem_nil, or_false] at hx
    rcases hx with rfl | rfl <;> (constructor <;> decide)
  · simp only [List.mem_cons, List.not_mem_nil, or_false] at hx
    rcases hx with rfl | rfl <;> (constructor <;> decide)
  · simp only [List.mem_cons, List.not_mem_nil, or_false] at hx
    rcases hx with rfl | rfl <;> (constructor <;> decide)
  · exact uchar_clean _ c x hx
  · simp only [List.mem_cons, List.not_mem_nil, or_false] at hx
    subst hx; exact ⟨h3, h4⟩
  · simp only [List.mem_cons, List.not_mem_nil, or_false] at hx
    rcases hx with rfl | rfl <;> (constructor <;> decide)
  · simp only [List.mem_cons, List.not_mem_nil, or_false] at hx
    subst hx; exact ⟨h3, h4⟩
  · simp only [List.mem_cons, List.not_mem_nil, or_false] at hx
    rcases hx with rfl | rfl <;> (constructor <;> decide)
  · simp only [List.mem_cons, List.not_mem_nil, or_false] at hx
    subst hx; exact ⟨h3, h4⟩
  · simp only [List.mem_cons, List.not_mem_nil, or_false] at hx
    rcases hx with rfl | rfl
    · exact bs
    · exact ⟨h3, h4⟩
  · simp only [List.mem_cons, List.not_mem_nil, or_false] at hx
    subst hx; exact ⟨h3, h4⟩

theorem escStr_clean {q : Char} (hq : q = '"' ∨ q = '\'') (ks : List Nat) (s : Str) :
    ∀ x ∈ escStr q ks s, clean x := by
  induction s generalizing ks with
  | nil => simp [escStr]
  | cons c cs ih =>
    intro x hx
    simp only [escStr, List.mem_append] at hx
    rcases hx with hx | hx
    · exact escChar_clean hq _ c x hx
    · exact ih _ x hx

theorem quoted_clean (ch : CellChoice) (s : Str) : ∀ x ∈ quoted ch s, clean x := by
  have hq := quote_cases ch
  have hqc : clean (quote ch) := by rcases hq with h | h <;> rw [h] <;> (constructor <;> decide)
  intro x hx
  simp only [quoted, List.mem_cons, List.mem_append, List.not_mem_nil, or_false] at hx
  rcases hx with rfl | hx | rfl
  · exact hqc
  · exact escStr_clean hq _ s x hx
  · exact hqc

theorem validLang_chars {l : Str} (h : validLang l = true) : ∀ c ∈ l, clean c := by
  intro c hc
  unfold validLang at h
  split at h
  · simp at h
  · next hd tl heq =>
    simp only [Bool.and_eq_true] at h
    rcases mem_splitOn (sep := '-') hc with rfl | ⟨p, hp, hcp⟩
    · constructor <;> decide
    · rw [heq] at hp
      rcases List.mem_cons.mp hp with rfl | hp
      · exact isAlpha_clean (List.all_eq_true.mp (all_of_nonemptyAll h.1).2 c hcp)
      · exact isAlnum_clean (List.all_eq_true.mp (all_of_nonemptyAll (List.all_eq_true.mp h.2 p hp)).2 c hcp)

theorem validLabel_chars {l : Str} (h : validLabel l = true) : ∀ c ∈ l, clean c := by
  cases l with
  | nil => simp
  | cons a r =>
    simp only [validLabel, Bool.and_eq_true] at h
    intro c hc
    rcases List.mem_cons.mp hc with rfl | hc
    · exact labelChar_clean (by
        rcases Bool.or_eq_true _ _ |>.mp h.1.1 with h | h
        · simp [pnChars, varTail, h]
        · simp [pnChars, varTail, h])
    · exact labelChar_clean (List.all_eq_true.mp h.1.2 c hc)

theorem shortOk_chars {s d : Str} (h : shortOk s d = true) : ∀ c ∈ s, clean c := by
  simp only [shortOk, Bool.or_eq_true, Bool.and_eq_true, beq_iff_eq] at h
  rcases h with ⟨_, rfl | rfl⟩ | h
  · intro c hc; rw [sTrue_eq] at hc; simp at hc; rcases hc with rfl | rfl | rfl | rfl <;> (constructor <;> decide)
  · intro c hc; rw [sFalse_eq] at hc; simp at hc
    rcases hc with rfl | rfl | rfl | rfl | rfl <;> (constructor <;> decide)
  · cases s with
    | nil => simp at h
    | cons c u =>
      simp only at h
      split_ifs at h with h1 h2
      · intro x hx
        rcases List.mem_cons.mp hx with rfl | hx
        · subst h2; constructor <;> decide
        · exact bareChar_clean ((numOk_facts h).2 x hx)
      · intro x hx; exact bareChar_clean ((numOk_facts h).2 x hx)

theorem renderCell_clean (ch : CellChoice) {c : Cell} (h : ∀ t, c = some t → tsvTermOk t = true) :
    ∀ x ∈ renderCell ch c, clean x := by
  cases c with
  | none => simp [renderCell]
  | some t =>
    have ht := h t rfl
    have lt : clean '<' := by constructor <;> decide
    have gt : clean '>' := by constructor <;> decide
    intro x hx
    cases t with
    | iri s =>
      simp only [renderCell, List.mem_cons, List.mem_append, List.not_mem_nil, or_false] at hx
      rcases hx with rfl | hx | rfl
      · exact lt
      · exact iriChar_clean (List.all_eq_true.mp ht x hx)
      · exact gt
    | bnode l =>
      simp only [renderCell, List.mem_cons] at hx
      rcases hx with rfl | rfl | hx
      · constructor <;> decide
      · constructor <;> decide
      · exact validLabel_chars ht x hx
    | plain s => exact quoted_clean ch s x hx
    | lang s l =>
      simp only [renderCell, List.mem_cons, List.mem_append] at hx
      rcases hx with hx | rfl | hx
      · exact quoted_clean ch s x hx
      · constructor <;> decide
      · exact validLang_chars ht x hx
    | typed s d =>
      simp only [renderCell] at hx
      split_ifs at hx with hs
      · exact shortOk_chars (by simp only [Bool.and_eq_true] at hs; exact hs.2) x hx
      · simp only [List.mem_cons, List.mem_append, List.not_mem_nil, or_false] at hx
        rcases hx with hx | rfl | rfl | rfl | hx | rfl
        · exact quoted_clean ch s x hx
        · constructor <;> decide
        · constructor <;> decide
        · exact lt
        · exact iriChar_clean (List.all_eq_true.mp ht x hx)
        · exact gt

end RV.C16
