import RV.C16.LemSplit
import Mathlib.Tactic.SplitIfs
/-
  C16 — the TSV string codec: `scanStr` undoes `escStr` for every string and every choice stream;
  IRIREF scanning.
-/
namespace RV.C16
open Spec.Tsv

theorem scanStr_raw {q c : Char} (h1 : c ≠ q) (h2 : c ≠ '\\') (h3 : c ≠ '\n') (h4 : c ≠ '\r') (tail : Str) :
    scanStr q (c :: tail) = (scanStr q tail).map (fun (s, rest) => (c :: s, rest)) := by
  rw [scanStr.eq_def]
  simp only [h1, h2, h3, h4, if_false]
  cases scanStr q tail <;> rfl

theorem scanStr_esc {q e d : Char} (hq : q ≠ '\\') (he1 : e ≠ 'u') (he2 : e ≠ 'U') (h : unescChar e = some d)
    (tail : Str) :
    scanStr q ('\\' :: e :: tail) = (scanStr q tail).map (fun (s, rest) => (d :: s, rest)) := by
  rw [scanStr.eq_def]
  simp only [Ne.symm hq, if_false, if_true, h, he1, he2]
  cases scanStr q tail <;> rfl

/-! ### UCHAR -/

theorem hexVal_hexDigit (lower : Bool) : ∀ d : Fin 16, hexVal (hexDigit lower d) = some d.val := by
  cases lower <;> decide

theorem hexVal_hexDigit' (lower : Bool) {d : Nat} (h : d < 16) : hexVal (hexDigit lower d) = some d :=
  hexVal_hexDigit lower ⟨d, h⟩

theorem hexNum_hex4 (lower : Bool) (acc : Nat) {m : Nat} (hm : m < 65536) (rest : Str) :
    hexNum acc (hex4 lower m ++ rest) = hexNum (acc * 65536 + m) rest := by
  have h3 : m / 4096 % 16 < 16 := Nat.mod_lt _ (by decide)
  have h2 : m / 256 % 16 < 16 := Nat.mod_lt _ (by decide)
  have h1 : m / 16 % 16 < 16 := Nat.mod_lt _ (by decide)
  have h0 : m % 16 < 16 := Nat.mod_lt _ (by decide)
  simp only [hex4, List.cons_append, List.nil_append, hexNum, hexVal_hexDigit' lower h3,
    hexVal_hexDigit' lower h2, hexVal_hexDigit' lower h1, hexVal_hexDigit' lower h0]
  congr 1
  omega

theorem char_toNat_lt (c : Char) : c.toNat < 1114112 := by
  have := c.valid
  unfold UInt32.isValidChar Nat.isValidChar at this
  show c.val.toNat < _
  omega

theorem chrOf_toNat (c : Char) : chrOf c.toNat = some c := by
  have : c.toNat.isValidChar := c.valid
  simp [chrOf, this, Char.ofNat_toNat]

theorem scanStr_uchar {q : Char} (hq : q ≠ '\\') (lower : Bool) (c : Char) (tail : Str) :
    scanStr q (uchar lower c ++ tail) = (scanStr q tail).map (fun (s, rest) => (c :: s, rest)) := by
  unfold uchar
  split
  · next hlt =>
    have e : hexNum 0 (hex4 lower c.toNat) = some c.toNat := by
      have := hexNum_hex4 lower 0 hlt []
      simpa [hexNum] using this
    simp only [hex4] at e
    rw [List.cons_append, List.cons_append, scanStr.eq_def]
    simp only [Ne.symm hq, if_false, if_true, hex4, List.cons_append, List.nil_append, e,
      Option.bind_some, chrOf_toNat]
    cases scanStr q tail <;> rfl
  · next hge =>
    have hlt := char_toNat_lt c
    have hhi : c.toNat / 65536 < 65536 := by omega
    have hlo : c.toNat % 65536 < 65536 := Nat.mod_lt _ (by decide)
    have e : hexNum 0 (hex4 lower (c.toNat / 65536) ++ hex4 lower (c.toNat % 65536)) = some c.toNat := by
      rw [hexNum_hex4 lower 0 hhi]
      have := hexNum_hex4 lower (0 * 65536 + c.toNat / 65536) hlo []
      rw [List.append_nil] at this
      rw [this]
      simp only [hexNum]
      congr 1
      omega
    simp only [hex4, List.cons_append, List.nil_append] at e
    rw [List.cons_append, List.cons_append, scanStr.eq_def]
    simp only [Ne.symm hq, if_false, if_true, hex4, List.cons_append, List.nil_append, e,
      Option.bind_some, chrOf_toNat, show ('U' : Char) ≠ 'u' by decide]
    cases scanStr q tail <;> rfl

theorem scanStr_escChar {q : Char} (hq : q = '"' ∨ q = '\'') (k : Nat) (c : Char) (tail : Str) :
    scanStr q (escChar q k c ++ tail) = (scanStr q tail).map (fun (s, rest) => (c :: s, rest)) := by
  have hq1 : q ≠ '\\' := by rcases hq with rfl | rfl <;> decide
  unfold escChar
  split_ifs with h1 h2 h3 h4 h5 h6 h7 h8 h9 h10 h11 h12
  · subst h1; exact scanStr_esc hq1 (by rcases hq with rfl | rfl <;> decide) (by rcases hq with rfl | rfl <;> decide)
      (by rcases hq with rfl | rfl <;> decide) tail
  · subst h2; exact scanStr_esc hq1 (by decide) (by decide) (by decide) tail
  · subst h3; exact scanStr_esc hq1 (by decide) (by decide) (by decide) tail
  · subst h4; exact scanStr_esc hq1 (by decide) (by decide) (by decide) tail
  · subst h5; exact scanStr_esc hq1 (by decide) (by decide) (by decide) tail
  · exact scanStr_uchar hq1 _ c tail
  · exact scanStr_raw h1 h2 h4 h5 tail
  · subst h7; exact scanStr_esc hq1 (by decide) (by decide) (by decide) tail
  · exact scanStr_raw h1 h2 h4 h5 tail
  · subst h9; exact scanStr_esc hq1 (by decide) (by decide) (by decide) tail
  · exact scanStr_raw h1 h2 h4 h5 tail
  · subst h11
    exact scanStr_esc hq1 (by rcases hq with rfl | rfl <;> decide) (by rcases hq with rfl | rfl <;> decide)
      (by rcases hq with rfl | rfl <;> decide) tail
  · exact scanStr_raw h1 h2 h4 h5 tail

/-- `tsv_cell_roundtrip`, general form: whatever follows the closing quote is handed back -/
theorem scanStr_escStr {q : Char} (hq : q = '"' ∨ q = '\'') (ks : List Nat) (s rest : Str) :
    scanStr q (escStr q ks s ++ q :: rest) = some (s, rest) := by
  induction s generalizing ks with
  | nil => simp only [escStr, List.nil_append]; rw [scanStr.eq_def]; simp
  | cons c cs ih =>
    simp only [escStr, List.append_assoc]
    rw [scanStr_escChar hq, ih]; rfl

theorem iriChar_ne_gt {c : Char} (h : iriChar c = true) : c ≠ '>' := by
  intro e; subst e; revert h; decide

theorem scanIri_append {s : Str} (h : s.all iriChar = true) (rest : Str) :
    scanIri (s ++ '>' :: rest) = some (s, rest) := by
  induction s with
  | nil => simp [scanIri]
  | cons c cs ih =>
    have h' : iriChar c = true ∧ cs.all iriChar = true := by simpa using h
    simp [scanIri, iriChar_ne_gt h'.1, h'.1, ih h'.2]

end RV.C16
