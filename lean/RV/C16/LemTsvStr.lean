import RV.C16.LemSplit
import Mathlib.Tactic.SplitIfs
/-
  C16 — the TSV string codec: `scanStr` undoes `escStr` for every string and every choice stream;
  IRIREF scanning.
-/
namespace RV.C16
open Spec.Tsv

theorem scanStr_raw {q c : Char} (h1 : c ≠ q) (h2 : c ≠ '\\') (h3 : c ≠ '\n') (h4 : c ≠ '\r') (tail : Str) :
    scanStr q (c :: tail) = (scanStr q tail).map (fun (s, rest) => (c :: s, rest)) := by
  rw [scanStr.eq_def]
  simp only [h1, h2, h3, h4, if_false]
  cases scanStr q tail <;> rfl

theorem scanStr_esc {q e d : Char} (hq : q ≠ '\\') (h : unescChar q e = some d) (tail : Str) :
    scanStr q ('\\' :: e :: tail) = (scanStr q tail).map (fun (s, rest) => (d :: s, rest)) := by
  rw [scanStr.eq_def]
  simp only [Ne.symm hq, if_false, if_true, h]
  cases scanStr q tail <;> rfl

theorem scanStr_escChar {q : Char} (hq : q = '"' ∨ q = '\'') (k : Nat) (c : Char) (tail : Str) :
    scanStr q (escChar q k c ++ tail) = (scanStr q tail).map (fun (s, rest) => (c :: s, rest)) := by
  have hq1 : q ≠ '\\' := by rcases hq with rfl | rfl <;> decide
  have hq2 : q ≠ '\n' := by rcases hq with rfl | rfl <;> decide
  have hq3 : q ≠ '\r' := by rcases hq with rfl | rfl <;> decide
  have hq4 : q ≠ '\x08' := by rcases hq with rfl | rfl <;> decide
  have hq5 : q ≠ '\x0c' := by rcases hq with rfl | rfl <;> decide
  unfold escChar
  split_ifs with h1 h2 h3 h4 h5 h6 h7 h8 h9
  · subst h1; exact scanStr_esc hq1 (by simp [unescChar]) tail
  · subst h2; exact scanStr_esc hq1 (by rcases hq with rfl | rfl <;> decide) tail
  · subst h3; exact scanStr_esc hq1 (by rcases hq with rfl | rfl <;> decide) tail
  · subst h4; exact scanStr_esc hq1 (by rcases hq with rfl | rfl <;> decide) tail
  · subst h5; exact scanStr_esc hq1 (by rcases hq with rfl | rfl <;> decide) tail
  · exact scanStr_raw h1 h2 h4 h5 tail
  · subst h6; exact scanStr_esc hq1 (by rcases hq with rfl | rfl <;> decide) tail
  · exact scanStr_raw h1 h2 h4 h5 tail
  · subst h8; exact scanStr_esc hq1 (by rcases hq with rfl | rfl <;> decide) tail
  · exact scanStr_raw h1 h2 h4 h5 tail

/-- `tsv_cell_roundtrip`, general form: whatever follows the closing quote is handed back -/
theorem scanStr_escStr {q : Char} (hq : q = '"' ∨ q = '\'') (ks : List Nat) (s rest : Str) :
    scanStr q (escStr q ks s ++ q :: rest) = some (s, rest) := by
  induction s generalizing ks with
  | nil => simp only [escStr, List.nil_append]; rw [scanStr.eq_def]; simp
  | cons c cs ih =>
    simp only [escStr, List.append_assoc]
    rw [scanStr_escChar hq, ih]; rfl

theorem iriChar_ne_gt {c : Char} (h : iriChar c = true) : c ≠ '>' := by
  intro e; subst e; revert h; decide

theorem scanIri_append {s : Str} (h : s.all iriChar = true) (rest : Str) :
    scanIri (s ++ '>' :: rest) = some (s, rest) := by
  induction s with
  | nil => simp [scanIri]
  | cons c cs ih =>
    have h' : iriChar c = true ∧ cs.all iriChar = true := by simpa using h
    simp [scanIri, iriChar_ne_gt h'.1, h'.1, ih h'.2]

end RV.C16
