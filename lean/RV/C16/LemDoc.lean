import RV.C16.Doc
import RV.C16.LemTextJson
import RV.C16.LemJson
/-
  C16, round h — the JSON document: `json.loads` as modelled undoes `json.dumps` on every number-free tree, hence on the
  tree of every result.
-/
namespace RV.C16

theorem skipWs_cons {c : Char} (h : jWs c = false) (r : Str) : skipWs (c :: r) = c :: r := by
  simp [skipWs, h]

theorem pyDumps_append (s rest : Str) :
    pyDumpsStr false s ++ rest = '"' :: (escAll pyEscChar s ++ '"' :: rest) := by
  simp [pyDumpsStr]

theorem scanKey_escAll (s rest : Str) : scanKey (escAll pyEscChar s ++ '"' :: rest) = .ok (s, rest) := by
  simp [scanKey, jsonScan_escAll jsonScanP_pyEscChar s rest]

/-- a value starts with a character that is neither white space nor a closing bracket -/
theorem jsonWrite_head (j : Json) :
    ∃ c r0, jsonWrite j = c :: r0 ∧ jWs c = false ∧ c ≠ ']' ∧ c ≠ '}' := by
  cases j with
  | null => exact ⟨_, _, by rw [jsonWrite], by decide, by decide, by decide⟩
  | bool b => cases b <;> exact ⟨_, _, by rw [jsonWrite], by decide, by decide, by decide⟩
  | num => exact ⟨_, _, by rw [jsonWrite], by decide, by decide, by decide⟩
  | str s => exact ⟨'"', _, by rw [jsonWrite, pyDumpsStr], by decide, by decide, by decide⟩
  | arr xs => exact ⟨_, _, by rw [jsonWrite], by decide, by decide, by decide⟩
  | obj kvs => exact ⟨_, _, by rw [jsonWrite], by decide, by decide, by decide⟩

theorem skipWs_write (j : Json) (rest : Str) : skipWs (jsonWrite j ++ rest) = jsonWrite j ++ rest := by
  obtain ⟨c, r0, e, h, -, -⟩ := jsonWrite_head j
  rw [e, List.cons_append, skipWs_cons h]

mutual
theorem parse_write : (j : Json) → numFree j = true → ∀ (f : Nat) (rest : Str), jsize j ≤ f →
    parseValue f (jsonWrite j ++ rest) = .ok (j, rest)
  | .null, _, f, rest, hf => by
    obtain ⟨f, rfl⟩ : ∃ f', f = f' + 1 := ⟨f - 1, by simp [jsize] at hf; omega⟩
    simp +decide [jsonWrite, parseValue, litNull, litTrue, litFalse]
  | .bool true, _, f, rest, hf => by
    obtain ⟨f, rfl⟩ : ∃ f', f = f' + 1 := ⟨f - 1, by simp [jsize] at hf; omega⟩
    simp +decide [jsonWrite, parseValue, litNull, litTrue, litFalse]
  | .bool false, _, f, rest, hf => by
    obtain ⟨f, rfl⟩ : ∃ f', f = f' + 1 := ⟨f - 1, by simp [jsize] at hf; omega⟩
    simp +decide [jsonWrite, parseValue, litNull, litTrue, litFalse]
  | .num, h, _, _, _ => by simp [numFree] at h
  | .str s, _, f, rest, hf => by
    obtain ⟨f, rfl⟩ : ∃ f', f = f' + 1 := ⟨f - 1, by simp [jsize] at hf; omega⟩
    rw [jsonWrite, pyDumps_append, parseValue]
    simp [scanKey_escAll, mapFst]
  | .arr xs, h, f, rest, hf => by
    have hs : 1 + jsizeItems xs ≤ f := by simpa [jsize] using hf
    obtain ⟨f, rfl⟩ : ∃ f', f = f' + 1 := ⟨f - 1, by omega⟩
    rw [jsonWrite, List.cons_append, List.append_assoc, parseValue]
    cases xs with
    | nil => simp +decide [jsonWriteItems, skipWs, closes]
    | cons x r =>
      have hn : numFreeItems (x :: r) = true := by simpa [numFree] using h
      have := parseItems_write (x :: r) (by simp) hn f rest (by omega)
      obtain ⟨c, r0, e, hw, hc, -⟩ := jsonWrite_head x
      have e2 : jsonWriteItems true (x :: r) ++ ([']'] ++ rest) = c :: (r0 ++ (jsonWriteItems false r ++ (']' :: rest))) := by
        simp [jsonWriteItems, e]
      have e3 : jsonWriteItems true (x :: r) ++ ']' :: rest = c :: (r0 ++ (jsonWriteItems false r ++ (']' :: rest))) := by
        simpa using e2
      rw [e3] at this
      simp +decide only [show ('[' : Char) ≠ '"' from by decide, show ('[' : Char) ≠ '{' from by decide, if_false, if_true]
      rw [e2, skipWs_cons hw]
      simp only [closes, hc, if_false, this, mapFst]
  | .obj kvs, h, f, rest, hf => by
    have hs : 1 + jsizeMembers kvs ≤ f := by simpa [jsize] using hf
    obtain ⟨f, rfl⟩ : ∃ f', f = f' + 1 := ⟨f - 1, by omega⟩
    rw [jsonWrite, List.cons_append, List.append_assoc, parseValue]
    cases kvs with
    | nil => simp +decide [jsonWriteMembers, skipWs, closes]
    | cons kv r =>
      obtain ⟨k, v⟩ := kv
      have hn : numFreeMembers ((k, v) :: r) = true := by simpa [numFree] using h
      have := parseMembers_write ((k, v) :: r) (by simp) hn f rest (by omega)
      have e2 : jsonWriteMembers true ((k, v) :: r) ++ (['}'] ++ rest)
          = '"' :: (escAll pyEscChar k ++ '"' :: (':' :: ' ' :: (jsonWrite v ++ (jsonWriteMembers false r ++ ('}' :: rest))))) := by
        simp [jsonWriteMembers, pyDumpsStr]
      have e3 : jsonWriteMembers true ((k, v) :: r) ++ '}' :: rest
          = '"' :: (escAll pyEscChar k ++ '"' :: (':' :: ' ' :: (jsonWrite v ++ (jsonWriteMembers false r ++ ('}' :: rest))))) := by
        simpa using e2
      rw [e3] at this
      simp +decide only [show ('{' : Char) ≠ '"' from by decide, if_false, if_true]
      rw [e2, skipWs_cons (by decide)]
      simp +decide only [closes, if_false, this, mapFst]
theorem parseItems_write : (xs : List Json) → xs ≠ [] → numFreeItems xs = true → ∀ (f : Nat) (rest : Str),
    jsizeItems xs ≤ f → parseItems f (jsonWriteItems true xs ++ ']' :: rest) = .ok (xs, rest)
  | [], h, _, _, _, _ => absurd rfl h
  | x :: r, _, hn, f, rest, hf => by
    have hn' : numFree x = true ∧ numFreeItems r = true := by simpa [numFreeItems] using hn
    have hs : 1 + jsize x + jsizeItems r ≤ f := by simpa [jsizeItems] using hf
    obtain ⟨f, rfl⟩ : ∃ f', f = f' + 1 := ⟨f - 1, by omega⟩
    have e : jsonWriteItems true (x :: r) ++ ']' :: rest = jsonWrite x ++ (jsonWriteItems false r ++ ']' :: rest) := by
      simp [jsonWriteItems]
    rw [e, parseItems, parse_write x hn'.1 f _ (by omega)]
    cases r with
    | nil => simp +decide [jsonWriteItems, skipWs]
    | cons y r' =>
      have ih := parseItems_write (y :: r') (by simp) hn'.2 f rest (by omega)
      have e4 : jsonWriteItems false (y :: r') ++ ']' :: rest = ',' :: ' ' :: (jsonWriteItems true (y :: r') ++ ']' :: rest) := by
        simp [jsonWriteItems]
      have e5 : skipWs (' ' :: (jsonWriteItems true (y :: r') ++ ']' :: rest)) = jsonWriteItems true (y :: r') ++ ']' :: rest := by
        have : jsonWriteItems true (y :: r') ++ ']' :: rest = jsonWrite y ++ (jsonWriteItems false r' ++ ']' :: rest) := by
          simp [jsonWriteItems]
        rw [this, skipWs, if_pos (by decide), skipWs_write]
      rw [e4]
      simp +decide only [skipWs_cons (show jWs ',' = false by decide), if_true, e5, ih, mapFst]
theorem parseMembers_write : (kvs : List (Str × Json)) → kvs ≠ [] → numFreeMembers kvs = true →
    ∀ (f : Nat) (rest : Str), jsizeMembers kvs ≤ f →
      parseMembers f (jsonWriteMembers true kvs ++ '}' :: rest) = .ok (kvs, rest)
  | [], h, _, _, _, _ => absurd rfl h
  | (k, v) :: r, _, hn, f, rest, hf => by
    have hn' : numFree v = true ∧ numFreeMembers r = true := by simpa [numFreeMembers] using hn
    have hs : 1 + jsize v + jsizeMembers r ≤ f := by simpa [jsizeMembers] using hf
    obtain ⟨f, rfl⟩ : ∃ f', f = f' + 1 := ⟨f - 1, by omega⟩
    have e : jsonWriteMembers true ((k, v) :: r) ++ '}' :: rest
        = '"' :: (escAll pyEscChar k ++ '"' :: (':' :: ' ' :: (jsonWrite v ++ (jsonWriteMembers false r ++ '}' :: rest)))) := by
      simp [jsonWriteMembers, pyDumpsStr]
    rw [e, parseMembers]
    simp only [if_true, scanKey_escAll, skipWs_cons (show jWs ':' = false by decide)]
    have e1 : skipWs (' ' :: (jsonWrite v ++ (jsonWriteMembers false r ++ '}' :: rest)))
        = jsonWrite v ++ (jsonWriteMembers false r ++ '}' :: rest) := by
      rw [skipWs, if_pos (by decide), skipWs_write]
    rw [e1, parse_write v hn'.1 f _ (by omega)]
    cases r with
    | nil => simp +decide [jsonWriteMembers, skipWs]
    | cons kv r' =>
      obtain ⟨k2, v2⟩ := kv
      have ih := parseMembers_write ((k2, v2) :: r') (by simp) hn'.2 f rest (by omega)
      have e4 : jsonWriteMembers false ((k2, v2) :: r') ++ '}' :: rest
          = ',' :: ' ' :: (jsonWriteMembers true ((k2, v2) :: r') ++ '}' :: rest) := by
        simp [jsonWriteMembers]
      have e5 : skipWs (' ' :: (jsonWriteMembers true ((k2, v2) :: r') ++ '}' :: rest))
          = jsonWriteMembers true ((k2, v2) :: r') ++ '}' :: rest := by
        have : jsonWriteMembers true ((k2, v2) :: r') ++ '}' :: rest
            = '"' :: (escAll pyEscChar k2 ++ '"' :: (':' :: ' ' :: (jsonWrite v2 ++ (jsonWriteMembers false r' ++ '}' :: rest)))) := by
          simp [jsonWriteMembers, pyDumpsStr]
        rw [this, skipWs, if_pos (by decide), skipWs_cons (by decide)]
      rw [e4]
      simp +decide only [skipWs_cons (show jWs ',' = false by decide), if_true, e5, ih, mapFst]
end

/-! ### the fuel `jsonParse` gives is enough -/

theorem pyDumps_length (s : Str) : 2 ≤ (pyDumpsStr false s).length := by simp [pyDumpsStr]

mutual
theorem jsize_le : (j : Json) → jsize j ≤ (jsonWrite j).length
  | .null => by simp [jsize, jsonWrite]
  | .bool true => by simp [jsize, jsonWrite]
  | .bool false => by simp [jsize, jsonWrite]
  | .num => by simp [jsize, jsonWrite]
  | .str s => by have := pyDumps_length s; simp [jsize, jsonWrite]; omega
  | .arr xs => by have := jsizeItems_le xs true; simp [jsize, jsonWrite] at this ⊢; omega
  | .obj kvs => by have := jsizeMembers_le kvs true; simp [jsize, jsonWrite] at this ⊢; omega
theorem jsizeItems_le : (xs : List Json) → (first : Bool) →
    jsizeItems xs ≤ (jsonWriteItems first xs).length + (if first then 1 else 0)
  | [], _ => by simp [jsizeItems]
  | x :: r, first => by
    have h1 := jsize_le x
    have h2 := jsizeItems_le r false
    cases first <;> simp [jsizeItems, jsonWriteItems] at h2 ⊢ <;> omega
theorem jsizeMembers_le : (kvs : List (Str × Json)) → (first : Bool) →
    jsizeMembers kvs ≤ (jsonWriteMembers first kvs).length + (if first then 1 else 0)
  | [], _ => by simp [jsizeMembers]
  | (k, v) :: r, first => by
    have h1 := jsize_le v
    have h2 := jsizeMembers_le r false
    cases first <;> simp [jsizeMembers, jsonWriteMembers] at h2 ⊢ <;> omega
end

/-- `json.loads (json.dumps tree) = tree` for every number-free tree -/
theorem jsonParse_jsonWrite (j : Json) (h : numFree j = true) : jsonParse (jsonWrite j) = .ok j := by
  unfold jsonParse
  have := parse_write j h ((jsonWrite j).length + 1) [] (by have := jsize_le j; omega)
  have hw := skipWs_write j []
  rw [List.append_nil] at this hw
  rw [hw, this]
  simp [skipWs]

/-! ### the tree of a result holds no number -/

theorem numFree_term (t : Term) : numFree (termToJson t) = true := by
  cases t <;> simp [termToJson, numFree, numFreeMembers]

theorem numFree_binding (vars : List Str) (row : Row) : numFreeMembers (bindingToJson vars row) = true := by
  induction vars generalizing row with
  | nil => cases row <;> simp [bindingToJson, numFreeMembers]
  | cons v vs ih =>
    cases row with
    | nil => simp [bindingToJson, numFreeMembers]
    | cons c cs =>
      cases c with
      | none => simpa [bindingToJson] using ih cs
      | some t => simp [bindingToJson, numFreeMembers, numFree_term, ih cs]

theorem numFree_rows (vars : List Str) (rows : List Row) :
    numFreeItems (rows.map (fun r => Json.obj (bindingToJson vars r))) = true := by
  induction rows with
  | nil => simp [numFreeItems]
  | cons r rs ih => simp [numFreeItems, numFree, numFree_binding, ih]

theorem numFree_strs (vs : List Str) : numFreeItems (vs.map Json.str) = true := by
  induction vs with
  | nil => simp [numFreeItems]
  | cons v vs ih => simp [numFreeItems, numFree, ih]

theorem numFree_toJson (r : Result) : numFree (toJson r) = true := by
  cases r with
  | ask b => simp [toJson, numFree, numFreeMembers]
  | select vars rows => simp [toJson, numFree, numFreeMembers, numFree_rows, numFree_strs]

theorem jsonDocRoundTrip_eq (r : Result) : jsonDocRoundTrip r = ofJson (toJson r) := by
  simp [jsonDocRoundTrip, jsonParse_jsonWrite _ (numFree_toJson r)]

end RV.C16
