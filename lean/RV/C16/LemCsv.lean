import RV.C16.LemTsvDoc
/-
  C16 — CSV: the field written for a cell is the string value of the cell read back.
-/
namespace RV.C16

/-- `str(term)` of a cell; an unbound cell is the empty field -/
def cellStr : Cell → Str
  | none => []
  | some t => strOf t

theorem cellStr_csvConvert (f : Str) : cellStr (csvConvert f) = f := by
  unfold csvConvert
  split
  · rfl
  · rfl
  · split <;> rfl

theorem alignCells_map_self {α : Type} (f : α → Cell) (r : List α) :
    alignCells r.length (r.map f) = r.map f := by
  have := alignCells_self (r.map f)
  simpa using this

theorem csvRoundTrip_select (vars : List Str) (rows : List Row) (h : ∀ r ∈ rows, r.length = vars.length) :
    csvRoundTrip (.select vars rows)
      = .ok (.select vars (rows.map (fun r => r.map (fun c => csvConvert (csvField c))))) := by
  simp only [csvRoundTrip, toCsv, ofCsv, List.map_map]
  congr 2
  apply List.map_congr_left
  intro r hr
  have hl := h r hr
  simp only [Function.comp]
  rw [← hl, alignCells_self, List.map_map]
  exact alignCells_map_self (csvConvert ∘ csvField) r

end RV.C16
