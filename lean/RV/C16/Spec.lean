import RV.C16.Model
/-
  C16 — reference TSV writer with choices (the W3C side of `tsv_reader_complete`).

  SPARQL 1.1 Query Results CSV and TSV Formats, §4: the header line lists the variables as `?name`
  separated by tabs; every solution is one line, cells separated by tabs, an unbound variable is
  the empty string; terms use the SPARQL/Turtle syntax — `<iri>`, `_:label`, quoted literals
  (`"…"` or `'…'`) with `@lang` or `^^<datatype>`, tab / line feed / carriage return written as
  `\t` `\n` `\r`; numbers and booleans may use the bare Turtle tokens (as the W3C test files
  csvtsv01/02.tsv do).  Every line, the last one included, ends with a line feed
  (IANA text/tab-separated-values: `record = field *(TAB field) EOL`).

  Choices a conformant writer has, all covered: quote character per literal; bare token or quoted
  form for xsd:integer / decimal / double / boolean literals whose lexical form is such a token;
  per character: backspace, form feed and the other quote character raw or as ECHAR (`\b` `\f` `\'` `\"`),
  any character other than the quote, backslash, tab, LF, CR as UCHAR (`\uXXXX` / `\UXXXXXXXX`, either case).
  Not among the choices (see design.d/C16.md): a leading `+` on a bare number (rdflib's term
  normalisation removes it from every literal), long quotes (`"""…"""`), `$name` in the header.

  Core-only imports: the driver executes `render` so that the harness' Python writer is tied to it.
-/
namespace RV.C16.Spec.Tsv
open RV.C16

structure CellChoice where
  sq : Bool := false            -- `'…'` instead of `"…"`
  short : Bool := false         -- bare token when allowed
  chars : List Nat := []        -- per character, see `escChar`
  deriving Repr

instance : Inhabited CellChoice := ⟨{}⟩

def hexDigit (lower : Bool) (d : Nat) : Char :=
  if d < 10 then Char.ofNat (48 + d) else Char.ofNat ((if lower then 87 else 55) + d)

def hex4 (lower : Bool) (n : Nat) : Str :=
  [hexDigit lower (n / 4096 % 16), hexDigit lower (n / 256 % 16), hexDigit lower (n / 16 % 16), hexDigit lower (n % 16)]

/-- UCHAR: `\uXXXX` below U+10000, `\UXXXXXXXX` above -/
def uchar (lower : Bool) (c : Char) : Str :=
  if c.toNat < 65536 then '\\' :: 'u' :: hex4 lower c.toNat
  else '\\' :: 'U' :: (hex4 lower (c.toNat / 65536) ++ hex4 lower (c.toNat % 65536))

/-- the quote character that is not `q` -/
def otherQuote (q : Char) : Char := if q = '"' then '\'' else '"'

/-- one character of a quoted literal under choice `k`: 0 = raw where the grammar allows it,
    1 = ECHAR where one exists, 2 / 3 = UCHAR with upper / lower case digits.  The quote itself and the
    backslash are always ECHARs; tab, LF, CR always `\t` `\n` `\r` as the TSV format demands. -/
def escChar (q : Char) (k : Nat) (c : Char) : Str :=
  if c = q then ['\\', q]
  else if c = '\\' then ['\\', '\\']
  else if c = '\t' then ['\\', 't']
  else if c = '\n' then ['\\', 'n']
  else if c = '\r' then ['\\', 'r']
  else if 2 ≤ k then uchar (k == 3) c
  else if c = '\x08' then (if k = 0 then [c] else ['\\', 'b'])
  else if c = '\x0c' then (if k = 0 then [c] else ['\\', 'f'])
  else if c = otherQuote q then (if k = 0 then [c] else ['\\', c])
  else [c]

def escStr (q : Char) : List Nat → Str → Str
  | _, [] => []
  | ks, c :: cs => escChar q (ks.headD 0) c ++ escStr q ks.tail cs

def quote (ch : CellChoice) : Char := if ch.sq then '\'' else '"'

def quoted (ch : CellChoice) (s : Str) : Str := quote ch :: (escStr (quote ch) ch.chars s ++ [quote ch])

def numOk (u dt : Str) : Bool :=
  (dt == xsdInteger && isInteger u) || (dt == xsdDecimal && isDecimal u) || (dt == xsdDouble && isDouble u)

/-- may `"lex"^^<dt>` be written as the bare token `lex`? -/
def shortOk (lex dt : Str) : Bool :=
  (dt == xsdBoolean && (lex == sTrue || lex == sFalse)) ||
  (match lex with
   | [] => false
   | c :: u => if c = '+' then false else if c = '-' then numOk u dt else numOk lex dt)

def renderCell (ch : CellChoice) : Cell → Str
  | none => []
  | some (.iri s) => '<' :: (s ++ ['>'])
  | some (.bnode l) => '_' :: ':' :: l
  | some (.plain s) => quoted ch s
  | some (.lang s l) => quoted ch s ++ '@' :: l
  | some (.typed s d) =>
    if ch.short && shortOk s d then s else quoted ch s ++ '^' :: '^' :: '<' :: (d ++ ['>'])

def renderCells : List CellChoice → Row → List Str
  | _, [] => []
  | chs, c :: cs => renderCell (chs.headD {}) c :: renderCells chs.tail cs

def renderLines : List (List CellChoice) → List Row → List Str
  | _, [] => []
  | chs, r :: rs => joinWith '\t' (renderCells (chs.headD []) r) :: renderLines chs.tail rs

def header (vars : List Str) : Str := joinWith '\t' (vars.map ('?' :: ·))

def unlines : List Str → Str
  | [] => []
  | l :: ls => l ++ '\n' :: unlines ls

/-- the TSV document of a SELECT result under the choices `chs` (one list per row, one entry per cell) -/
def render (chs : List (List CellChoice)) (vars : List Str) (rows : List Row) : Str :=
  unlines (header vars :: renderLines chs rows)

end RV.C16.Spec.Tsv
