import RV.C16.Model
import RV.C16.Spec
/-
  C16, round g — the TEXT level of the exchange formats (executable, core-only).

  What rdflib's result writers / readers hand to and take from the Python standard library, followed
  branch by branch:

    JSON   `JSONResultSerializer.serialize`: `json.dumps(res, allow_nan=False, ensure_ascii=False)`
           -> `json.encoder.encode_basestring` (`ESCAPE`, `ESCAPE_DCT`) per string, and
           `encode_basestring_ascii` (`ESCAPE_ASCII`, surrogate pairs) which is what `json.dumps` does by
           default (other writers, the harness' model-writer direction);
           `JSONResultParser.parse`: `json.loads` -> `json.decoder.scanstring` (strict) per string.
    CSV    `CSVResultSerializer.serialize`: `csv.writer(stream, delimiter=",")` = dialect `excel`
           (QUOTE_MINIMAL, quotechar `"`, doublequote, lineterminator CR LF, no escapechar):
           `_csv.c` `join_append_data` / `csv_writerow`;
           `CSVResultParser.parse`: `csv.reader(StringIO(text, newline=""), delimiter=",")` =
           `_csv.c` `parse_process_char` over the lines `StringIO.__next__` delivers.
    XML    `SPARQLXMLWriter`: `XMLGenerator.characters` (`xml.sax.saxutils.escape`), `_characters`
           (CR as `&#13;`), attributes through `quoteattr`; reader: an XML 1.0 parser (expat) on character
           data and attribute values (references, end-of-line and attribute-value normalisation, `Char`).
-/
namespace RV.C16
open Spec.Tsv (hex4 hexDigit)

/-! ### JSON strings -/

/-- the two-character escapes of `json.encoder.ESCAPE_DCT` -/
def jsonShort (c : Char) : Option Char :=
  if c = '\\' then some '\\'
  else if c = '"' then some '"'
  else if c = '\x08' then some 'b'
  else if c = '\x0c' then some 'f'
  else if c = '\n' then some 'n'
  else if c = '\r' then some 'r'
  else if c = '\t' then some 't'
  else none

/-- `'\\u{0:04x}'.format(n)` (`lower`) or its upper-case spelling -/
def ju4 (lower : Bool) (n : Nat) : Str := '\\' :: 'u' :: hex4 lower n

/-- the `\uXXXX` spelling of one character: one escape below U+10000, above it the surrogate pair
    `s1 = 0xd800 | ((n >> 10) & 0x3ff)`, `s2 = 0xdc00 | (n & 0x3ff)` with `n = ord(c) - 0x10000` -/
def jsonU (lower : Bool) (c : Char) : Str :=
  if c.toNat < 65536 then ju4 lower c.toNat
  else ju4 lower (0xD800 + (c.toNat - 65536) / 1024 % 1024) ++ ju4 lower (0xDC00 + (c.toNat - 65536) % 1024)

/-- `encode_basestring` (what `ensure_ascii=False` selects — rdflib's writer): `ESCAPE = [\x00-\x1f\\"\b\f\n\r\t]`
    replaced through `ESCAPE_DCT`, whose default for a control character is `\u00xx` in lower case -/
def pyEscChar (c : Char) : Str :=
  match jsonShort c with
  | some e => ['\\', e]
  | none => if c.toNat < 0x20 then ju4 true c.toNat else [c]

/-- `encode_basestring_ascii` (`json.dumps` default): `ESCAPE_ASCII = ([\\"]|[^\ -~])` -/
def pyEscCharAscii (c : Char) : Str :=
  if c = '\\' ∨ c = '"' ∨ c.toNat < 0x20 ∨ 0x7e < c.toNat then
    match jsonShort c with
    | some e => ['\\', e]
    | none => jsonU true c
  else [c]

def escAll (f : Char → Str) : Str → Str
  | [] => []
  | c :: cs => f c ++ escAll f cs

/-- the JSON text of a string, quotes included, as `json.dumps(s, ensure_ascii=ascii)` writes it -/
def pyDumpsStr (ascii : Bool) (s : Str) : Str :=
  '"' :: (escAll (if ascii then pyEscCharAscii else pyEscChar) s ++ ['"'])

/-- RFC 8259 §7 reference writer, one choice per character: 0 = as short as possible (= `encode_basestring`),
    1 = also `\/` for the solidus, 2 = `\uXXXX` in lower case, 3 (and above) = `\uXXXX` in upper case —
    any character may be written as `\uXXXX` (a surrogate pair above U+FFFF) -/
def jsonSpellChar (k : Nat) (c : Char) : Str :=
  if 2 ≤ k then jsonU (k == 2) c
  else if k = 1 ∧ c = '/' then ['\\', '/']
  else pyEscChar c

def jsonSpell : List Nat → Str → Str
  | _, [] => []
  | ks, c :: cs => jsonSpellChar (ks.headD 0) c ++ jsonSpell ks.tail cs

/-- the character after a backslash in `scanstring` (`BACKSLASH` table; `u` apart) -/
def jsonUnshort (e : Char) : Option Char :=
  if e = '"' then some '"'
  else if e = '\\' then some '\\'
  else if e = '/' then some '/'
  else if e = 'b' then some '\x08'
  else if e = 'f' then some '\x0c'
  else if e = 'n' then some '\n'
  else if e = 'r' then some '\r'
  else if e = 't' then some '\t'
  else none

def consOk (c : Char) : Except Err (Str × Str) → Except Err (Str × Str)
  | .ok (s, rest) => .ok (c :: s, rest)
  | .error e => .error e

/-- a lone surrogate: Python goes on (its `str` can hold one), so a later error is still raised; a string
    with a lone surrogate is outside the model -/
def afterLone : Except Err (Str × Str) → Except Err (Str × Str)
  | .ok _ => .error .unmodelled
  | .error e => .error e

/-- one UTF-16 code unit that is not part of a pair: a character, or a lone low surrogate -/
def emitUnit (n : Nat) (k : Except Err (Str × Str)) : Except Err (Str × Str) :=
  match chrOf n with
  | some x => consOk x k
  | none => afterLone k

/-- `json.decoder.scanstring(s, end, strict=True)` after the opening quote: the decoded string and what follows
    the closing quote.  `.value` = `JSONDecodeError` (a `ValueError`): unterminated string, a raw control
    character, an unknown escape, `\u` without four hexadecimal digits.
    `pend` = the `\uD800`–`\uDBFF` escape just read (the C code looks ahead for a `\uDC00`–`\uDFFF` escape and
    joins the two; anything else leaves the high surrogate alone). -/
def jsonScanP (pend : Option Nat) : Str → Except Err (Str × Str)
  | [] => .error .value
  | c :: r =>
    let lone : Except Err (Str × Str) → Except Err (Str × Str) := if pend.isSome then afterLone else id
    if c = '"' then lone (.ok ([], r))
    else if c = '\\' then
      match r with
      | [] => .error .value
      | e :: r' =>
        if e = 'u' then
          match r' with
          | a :: b :: c' :: d :: r'' =>
            match hexNum 0 [a, b, c', d] with
            | none => .error .value
            | some n =>
              match pend, decide (0xDC00 ≤ n ∧ n ≤ 0xDFFF) with
              | some h, true => consOk (Char.ofNat (0x10000 + (h - 0xD800) * 1024 + (n - 0xDC00))) (jsonScanP none r'')
              | _, _ =>
                lone (if 0xD800 ≤ n ∧ n ≤ 0xDBFF then jsonScanP (some n) r'' else emitUnit n (jsonScanP none r''))
          | _ => .error .value
        else
          match jsonUnshort e with
          | some d => lone (consOk d (jsonScanP none r'))
          | none => .error .value
    else if c.toNat < 0x20 then .error .value
    else lone (consOk c (jsonScanP none r))

def jsonScan (s : Str) : Except Err (Str × Str) := jsonScanP none s

/-- a whole JSON string token (`"…"`), nothing after it -/
def jsonLoadsStr : Str → Except Err Str
  | '"' :: r =>
    match jsonScan r with
    | .ok (s, []) => .ok s
    | .ok (_, _ :: _) => .error .value        -- "Extra data"
    | .error e => .error e
  | _ => .error .value

/-- one string through rdflib's JSON writer and reader -/
def wireJsonStr (s : Str) : Except Err Str := jsonLoadsStr (pyDumpsStr false s)

end RV.C16
