import RV.C16.Model
import RV.C16.Spec
/-
  C16, round g — the TEXT level of the exchange formats (executable, core-only).

  What rdflib's result writers / readers hand to and take from the Python standard library, followed
  branch by branch:

    JSON   `JSONResultSerializer.serialize`: `json.dumps(res, allow_nan=False, ensure_ascii=False)`
           -> `json.encoder.encode_basestring` (`ESCAPE`, `ESCAPE_DCT`) per string, and
           `encode_basestring_ascii` (`ESCAPE_ASCII`, surrogate pairs) which is what `json.dumps` does by
           default (other writers, the harness' model-writer direction);
           `JSONResultParser.parse`: `json.loads` -> `json.decoder.scanstring` (strict) per string.
    CSV    `CSVResultSerializer.serialize`: `csv.writer(stream, delimiter=",")` = dialect `excel`
           (QUOTE_MINIMAL, quotechar `"`, doublequote, lineterminator CR LF, no escapechar):
           `_csv.c` `join_append_data` / `csv_writerow`;
           `CSVResultParser.parse`: `csv.reader(StringIO(text, newline=""), delimiter=",")` =
           `_csv.c` `parse_process_char` over the lines `StringIO.__next__` delivers.
    XML    `SPARQLXMLWriter`: `XMLGenerator.characters` (`xml.sax.saxutils.escape`), `_characters`
           (CR as `&#13;`), attributes through `quoteattr`; reader: an XML 1.0 parser (expat) on character
           data and attribute values (references, end-of-line and attribute-value normalisation, `Char`).
-/
namespace RV.C16
open Spec.Tsv (hex4 hexDigit)

/-! ### JSON strings -/

/-- the two-character escapes of `json.encoder.ESCAPE_DCT` -/
def jsonShort (c : Char) : Option Char :=
  if c = '\\' then some '\\'
  else if c = '"' then some '"'
  else if c = '\x08' then some 'b'
  else if c = '\x0c' then some 'f'
  else if c = '\n' then some 'n'
  else if c = '\r' then some 'r'
  else if c = '\t' then some 't'
  else none

/-- `'\\u{0:04x}'.format(n)` (`lower`) or its upper-case spelling -/
def ju4 (lower : Bool) (n : Nat) : Str := '\\' :: 'u' :: hex4 lower n

/-- the `\uXXXX` spelling of one character: one escape below U+10000, above it the surrogate pair
    `s1 = 0xd800 | ((n >> 10) & 0x3ff)`, `s2 = 0xdc00 | (n & 0x3ff)` with `n = ord(c) - 0x10000` -/
def jsonU (lower : Bool) (c : Char) : Str :=
  if c.toNat < 65536 then ju4 lower c.toNat
  else ju4 lower (0xD800 + (c.toNat - 65536) / 1024 % 1024) ++ ju4 lower (0xDC00 + (c.toNat - 65536) % 1024)

/-- `encode_basestring` (what `ensure_ascii=False` selects — rdflib's writer): `ESCAPE = [\x00-\x1f\\"\b\f\n\r\t]`
    replaced through `ESCAPE_DCT`, whose default for a control character is `\u00xx` in lower case -/
def pyEscChar (c : Char) : Str :=
  match jsonShort c with
  | some e => ['\\', e]
  | none => if c.toNat < 0x20 then ju4 true c.toNat else [c]

/-- `encode_basestring_ascii` (`json.dumps` default): `ESCAPE_ASCII = ([\\"]|[^\ -~])` -/
def pyEscCharAscii (c : Char) : Str :=
  if c = '\\' ∨ c = '"' ∨ c.toNat < 0x20 ∨ 0x7e < c.toNat then
    match jsonShort c with
    | some e => ['\\', e]
    | none => jsonU true c
  else [c]

def escAll (f : Char → Str) : Str → Str
  | [] => []
  | c :: cs => f c ++ escAll f cs

/-- the JSON text of a string, quotes included, as `json.dumps(s, ensure_ascii=ascii)` writes it -/
def pyDumpsStr (ascii : Bool) (s : Str) : Str :=
  '"' :: (escAll (if ascii then pyEscCharAscii else pyEscChar) s ++ ['"'])

/-- RFC 8259 §7 reference writer, one choice per character: 0 = as short as possible (= `encode_basestring`),
    1 = also `\/` for the solidus, 2 = `\uXXXX` in lower case, 3 (and above) = `\uXXXX` in upper case —
    any character may be written as `\uXXXX` (a surrogate pair above U+FFFF) -/
def jsonSpellChar (k : Nat) (c : Char) : Str :=
  if 2 ≤ k then jsonU (k == 2) c
  else if k = 1 ∧ c = '/' then ['\\', '/']
  else pyEscChar c

def jsonSpell : List Nat → Str → Str
  | _, [] => []
  | ks, c :: cs => jsonSpellChar (ks.headD 0) c ++ jsonSpell ks.tail cs

/-- the character after a backslash in `scanstring` (`BACKSLASH` table; `u` apart) -/
def jsonUnshort (e : Char) : Option Char :=
  if e = '"' then some '"'
  else if e = '\\' then some '\\'
  else if e = '/' then some '/'
  else if e = 'b' then some '\x08'
  else if e = 'f' then some '\x0c'
  else if e = 'n' then some '\n'
  else if e = 'r' then some '\r'
  else if e = 't' then some '\t'
  else none

/-- result of the scanner: decoded string, what follows the closing quote, and whether a lone surrogate was met
    (Python's `str` can hold one, the model's strings cannot: the flag makes the result "outside the model") -/
abbrev Scan := Except Err (Str × Str × Bool)

def consOk (c : Char) : Scan → Scan
  | .ok (s, rest, l) => .ok (c :: s, rest, l)
  | .error e => .error e

/-- a lone surrogate: Python goes on, so a later error is still raised -/
def afterLone : Scan → Scan
  | .ok (s, rest, _) => .ok (s, rest, true)
  | .error e => .error e

/-- one UTF-16 code unit that is not part of a pair: a character, or a lone low surrogate -/
def emitUnit (n : Nat) (k : Scan) : Scan :=
  match chrOf n with
  | some x => consOk x k
  | none => afterLone k

/-- `json.decoder.scanstring(s, end, strict=True)` after the opening quote: the decoded string and what follows
    the closing quote.  `.value` = `JSONDecodeError` (a `ValueError`): unterminated string, a raw control
    character, an unknown escape, `\u` without four hexadecimal digits.
    `pend` = the `\uD800`–`\uDBFF` escape just read (the C code looks ahead for a `\uDC00`–`\uDFFF` escape and
    joins the two; anything else leaves the high surrogate alone). -/
def jsonScanP (pend : Option Nat) : Str → Scan
  | [] => .error .value
  | c :: r =>
    let lone : Scan → Scan := if pend.isSome then afterLone else id
    if c = '"' then lone (.ok ([], r, false))
    else if c = '\\' then
      match r with
      | [] => .error .value
      | e :: r' =>
        if e = 'u' then
          match r' with
          | a :: b :: c' :: d :: r'' =>
            match hexNum 0 [a, b, c', d] with
            | none => .error .value
            | some n =>
              match pend, decide (0xDC00 ≤ n ∧ n ≤ 0xDFFF) with
              | some h, true => consOk (Char.ofNat (0x10000 + (h - 0xD800) * 1024 + (n - 0xDC00))) (jsonScanP none r'')
              | _, _ =>
                lone (if 0xD800 ≤ n ∧ n ≤ 0xDBFF then jsonScanP (some n) r'' else emitUnit n (jsonScanP none r''))
          | _ => .error .value
        else
          match jsonUnshort e with
          | some d => lone (consOk d (jsonScanP none r'))
          | none => .error .value
    else if c.toNat < 0x20 then .error .value
    else lone (consOk c (jsonScanP none r))

def jsonScan (s : Str) : Scan := jsonScanP none s

/-- a whole JSON string token (`"…"`), nothing after it -/
def jsonLoadsStr : Str → Except Err Str
  | '"' :: r =>
    match jsonScan r with
    | .ok (_, _ :: _, _) => .error .value     -- "Extra data"
    | .ok (s, [], false) => .ok s
    | .ok (_, [], true) => .error .unmodelled
    | .error e => .error e
  | _ => .error .value

/-- one string through rdflib's JSON writer and reader -/
def wireJsonStr (s : Str) : Except Err Str := jsonLoadsStr (pyDumpsStr false s)

/-! ### CSV text: Python's `csv.writer` / `csv.reader` in the dialect rdflib uses

`csv.writer(stream, delimiter=",")` / `csv.reader(source, delimiter=",")` = dialect `excel`: quotechar `"`,
doublequote, no escapechar, no skipinitialspace, lineterminator CR LF, QUOTE_MINIMAL, not strict. -/

/-- `join_append_data`: a character that makes the writer quote the field — the delimiter, the quote character, or a
    character of the line terminator `"\r\n"` -/
def csvSpecial (c : Char) : Bool := c == ',' || c == '"' || c == '\r' || c == '\n'

/-- the inside of a quoted field: the quote character is doubled -/
def csvQuoteBody : Str → Str
  | [] => []
  | c :: cs => if c = '"' then '"' :: '"' :: csvQuoteBody cs else c :: csvQuoteBody cs

/-- one field; `force` = quote it although QUOTE_MINIMAL would not (a choice of the reference writer, RFC 4180) -/
def csvWriteField (force : Bool) (f : Str) : Str :=
  if force || f.any csvSpecial then '"' :: (csvQuoteBody f ++ ['"']) else f

def csvRenderFields : List Bool → List Str → Str
  | _, [] => []
  | qs, [f] => csvWriteField (qs.headD false) f
  | qs, f :: g :: r => csvWriteField (qs.headD false) f ++ ',' :: csvRenderFields qs.tail (g :: r)

/-- line end: Python writes CR LF; a bare LF is the other choice of the reference writer -/
def csvEol (lf : Bool) : Str := if lf then ['\n'] else ['\r', '\n']

/-- `csv_writerow`: the fields joined by the delimiter, then the line terminator; a record that consists of one
    empty field is written `""` ("empty record must be quoted") -/
def csvRenderRow (qs : List Bool) (lf : Bool) (row : List Str) : Str :=
  (match row with
   | [[]] => ['"', '"']
   | _ => csvRenderFields qs row) ++ csvEol lf

/-- RFC 4180 reference writer: per field the choice to quote without need, per document the line end -/
def csvRender : List (List Bool) → Bool → List (List Str) → Str
  | _, _, [] => []
  | qss, lf, r :: rs => csvRenderRow (qss.headD []) lf r ++ csvRender qss.tail lf rs

/-- `csv.writer(...).writerow` for every row: no quote without need, CR LF -/
def csvWrite (t : List (List Str)) : Str := csvRender [] false t

/-- states of `_csv.c` `parse_process_char` reachable without an escapechar -/
inductive CsvSt where
  | startRecord | startField | inField | inQuoted | quoteInQuoted | eatCrnl
  deriving DecidableEq, Repr

structure CsvM where
  st : CsvSt
  field : Str            -- the field being read (`self->field`)
  fields : List Str      -- the fields of the record so far (`self->fields`)
  deriving Repr

/-- `parse_save_field` and the next state -/
def CsvM.save (m : CsvM) (st : CsvSt) : CsvM := ⟨st, [], m.fields ++ [m.field]⟩

def CsvM.add (m : CsvM) (st : CsvSt) (c : Char) : CsvM := ⟨st, m.field ++ [c], m.fields⟩

def csvFresh : CsvM := ⟨.startRecord, [], []⟩

/-- case START_FIELD -/
def csvStartField (m : CsvM) (c : Char) : CsvM :=
  if c = '\n' ∨ c = '\r' then m.save .eatCrnl
  else if c = '"' then { m with st := .inQuoted }
  else if c = ',' then m.save .startField
  else m.add .inField c

/-- `parse_process_char` on a character of a line -/
def csvChar (m : CsvM) (c : Char) : Except Err CsvM :=
  match m.st with
  | .startRecord => if c = '\n' ∨ c = '\r' then .ok { m with st := .eatCrnl } else .ok (csvStartField m c)
  | .startField => .ok (csvStartField m c)
  | .inField =>
    if c = '\n' ∨ c = '\r' then .ok (m.save .eatCrnl)
    else if c = ',' then .ok (m.save .startField)
    else .ok (m.add .inField c)
  | .inQuoted => if c = '"' then .ok { m with st := .quoteInQuoted } else .ok (m.add .inQuoted c)
  | .quoteInQuoted =>
    if c = '"' then .ok (m.add .inQuoted c)
    else if c = ',' then .ok (m.save .startField)
    else if c = '\n' ∨ c = '\r' then .ok (m.save .eatCrnl)
    else .ok (m.add .inField c)                    -- not strict: `"a"b` is the field `ab`
  | .eatCrnl =>
    if c = '\n' ∨ c = '\r' then .ok m
    else .error .unmodelled   -- `_csv.Error: new-line character seen in unquoted field` (not with `newline=""` sources)

/-- `parse_process_char(EOL)`, sent after the last character of every line -/
def csvEolStep (m : CsvM) : CsvM :=
  match m.st with
  | .startRecord => m
  | .startField => m.save .startRecord
  | .inField => m.save .startRecord
  | .inQuoted => m                                  -- the record goes on in the next line
  | .quoteInQuoted => m.save .startRecord
  | .eatCrnl => { m with st := .startRecord }

/-- does the next character of the text make a CR the first half of CR LF? -/
def nextIsLF : Str → Bool
  | '\n' :: _ => true
  | _ => false

def consRec (r : List Str) : Except Err (List (List Str)) → Except Err (List (List Str))
  | .ok rs => .ok (r :: rs)
  | .error e => .error e

/-- `Reader_iternext` over the lines that `StringIO(text, newline="")` delivers — a line ends after LF, after CR LF, or
    after a CR that no LF follows, and the line end is kept —: every character goes through `parse_process_char`, `EOL`
    follows the last character of a line, a record is complete when the state is START_RECORD again (`parse_reset` for
    the next one).  `mid` = characters of an unfinished last line have been read.  At the end of the text the
    open record of a quoted field is still delivered (`field_len != 0 || state == IN_QUOTED_FIELD`, not strict). -/
def csvRun (m : CsvM) (mid : Bool) : Str → Except Err (List (List Str))
  | [] =>
    let m' := if mid then csvEolStep m else m
    if m'.st = .inQuoted then .ok [m'.fields ++ [m'.field]]
    else if mid then .ok [m'.fields]
    else .ok []
  | c :: rest =>
    match csvChar m c with
    | .error e => .error e
    | .ok m' =>
      let lineEnd : Bool := c == '\n' || (c == '\r' && !nextIsLF rest)
      if lineEnd then
        let m'' := csvEolStep m'
        if m''.st = .startRecord then consRec m''.fields (csvRun csvFresh false rest)
        else csvRun m'' false rest
      else csvRun m' true rest

/-- `list(csv.reader(StringIO(text, newline=""), delimiter=","))` -/
def csvParse (text : Str) : Except Err (List (List Str)) := csvRun csvFresh false text

/-- rdflib's CSV reader and writer composed through the text: `Result.parse(BytesIO(r.serialize(format="csv")), format="csv")` -/
def csvTextRoundTrip (r : Result) : Except Err Result :=
  match toCsv r with
  | .error e => .error e
  | .ok t =>
    match csvParse (csvWrite t) with
    | .error e => .error e
    | .ok t' => ofCsv t'

/-! ### XML text: `xml.sax.saxutils` on the writer side, an XML 1.0 parser on the reader side -/

def sAmp : Str := ['&', 'a', 'm', 'p', ';']
def sLt : Str := ['&', 'l', 't', ';']
def sGt : Str := ['&', 'g', 't', ';']
def sQuot : Str := ['&', 'q', 'u', 'o', 't', ';']
def sRef9 : Str := ['&', '#', '9', ';']
def sRef10 : Str := ['&', '#', '1', '0', ';']
def sRef13 : Str := ['&', '#', '1', '3', ';']

/-- `xml.sax.saxutils.escape` on one character (`&` first, then `>` and `<`: no replacement touches another) -/
def xmlEscChar (c : Char) : Str :=
  if c = '&' then sAmp else if c = '>' then sGt else if c = '<' then sLt else [c]

/-- `SPARQLXMLWriter._characters`: the content is split at carriage returns, every chunk goes through
    `XMLGenerator.characters` (= `escape`), `&#13;` is written between the chunks -/
def xmlTextChar (c : Char) : Str := if c = '\r' then sRef13 else xmlEscChar c

def xmlWriteText (s : Str) : Str := escAll xmlTextChar s

/-- `quoteattr`, first step: `escape(data, {'\n': '&#10;', '\r': '&#13;', '\t': '&#9;'})` -/
def xmlAttrChar (c : Char) : Str :=
  if c = '\n' then sRef10 else if c = '\r' then sRef13 else if c = '\t' then sRef9 else xmlEscChar c

def quotToRef (c : Char) : Str := if c = '"' then sQuot else [c]

/-- `q in data` -/
def hasChar (q : Char) : Str → Bool
  | [] => false
  | c :: r => c == q || hasChar q r

/-- `xml.sax.saxutils.quoteattr` (what `XMLGenerator.startElementNS` writes after `name=`): `"…"` unless the escaped
    value holds a double quote; then `'…'` unless it also holds a single quote; then `"…"` with `&quot;` -/
def quoteattr (s : Str) : Str :=
  let d := escAll xmlAttrChar s
  if hasChar '"' d then
    if hasChar '\'' d then '"' :: (escAll quotToRef d ++ ['"'])
    else '\'' :: (d ++ ['\''])
  else '"' :: (d ++ ['"'])

/-- the digits of a character reference (`base` 10 or 16) -/
def refNum (base : Nat) : Nat → Str → Option Nat
  | acc, [] => some acc
  | acc, c :: r =>
    match hexVal c with
    | some d => if d < base then refNum base (acc * base + d) r else none
    | none => none

def refChar (n : Option Nat) : Option Char :=
  match n.bind chrOf with
  | some c => if xmlChar c then some c else none      -- a character reference must name a `Char` (XML 1.0 §4.1)
  | none => none

/-- what stands between `&` and `;`: the five predefined entities, `#N`, `#xH` -/
def xmlRefBody (b : Str) : Option Char :=
  if b = ['a', 'm', 'p'] then some '&'
  else if b = ['l', 't'] then some '<'
  else if b = ['g', 't'] then some '>'
  else if b = ['q', 'u', 'o', 't'] then some '"'
  else if b = ['a', 'p', 'o', 's'] then some '\''
  else
    match b with
    | '#' :: 'x' :: d :: ds => refChar (refNum 16 0 (d :: ds))
    | '#' :: d :: ds => refChar (refNum 10 0 (d :: ds))
    | _ => none

def consSome (c : Char) : Option (Str × Str) → Option (Str × Str)
  | some (s, rest) => some (c :: s, rest)
  | none => none

/-- character data up to the next `<` (or the end), as an XML 1.0 parser delivers it: references resolved (`ref` = the
    part of a reference read so far), a literal CR LF or CR delivered as LF (§2.11; `skipLF` = the previous character
    was a literal CR), every character a `Char`, no literal `]]>` (§2.4; `br` = number of `]` just before, capped
    at 2).  `none` = not well-formed. -/
def xmlReadText (skipLF : Bool) (br : Nat) (ref : Option Str) : Str → Option (Str × Str)
  | [] => if ref.isSome then none else some ([], [])
  | c :: r =>
    match ref with
    | some acc =>
      if c = ';' then
        match xmlRefBody acc with
        | some x => consSome x (xmlReadText false 0 none r)
        | none => none
      else xmlReadText skipLF br (some (acc ++ [c])) r
    | none =>
      if c = '<' then some ([], c :: r)
      else if c = '&' then xmlReadText false 0 (some []) r
      else if !xmlChar c then none
      else if c = '>' ∧ 2 ≤ br then none
      else if c = '\n' ∧ skipLF then xmlReadText false 0 none r
      else if c = '\r' then consSome '\n' (xmlReadText true 0 none r)
      else consSome c (xmlReadText false (if c = ']' then min 2 (br + 1) else 0) none r)

/-- an attribute value after its opening quote `q`, as an XML 1.0 parser delivers it: references resolved and kept as
    they are, a literal tab / LF / CR (CR LF counts once) delivered as a space (§3.3.3), no literal `<`, every
    character a `Char` -/
def xmlReadAttrQ (q : Char) (skipLF : Bool) (ref : Option Str) : Str → Option (Str × Str)
  | [] => none
  | c :: r =>
    match ref with
    | some acc =>
      if c = ';' then
        match xmlRefBody acc with
        | some x => consSome x (xmlReadAttrQ q false none r)
        | none => none
      else xmlReadAttrQ q skipLF (some (acc ++ [c])) r
    | none =>
      if c = q then some ([], r)
      else if c = '<' then none
      else if c = '&' then xmlReadAttrQ q false (some []) r
      else if !xmlChar c then none
      else if c = '\n' ∧ skipLF then xmlReadAttrQ q false none r
      else if c = '\r' then consSome ' ' (xmlReadAttrQ q true none r)
      else if c = '\n' ∨ c = '\t' then consSome ' ' (xmlReadAttrQ q false none r)
      else consSome c (xmlReadAttrQ q false none r)

/-- a quoted attribute value: the value and what follows the closing quote -/
def xmlReadAttr : Str → Option (Str × Str)
  | q :: r => if q = '"' ∨ q = '\'' then xmlReadAttrQ q false none r else none
  | [] => none

/-- the content of an element that holds only character data, up to its end tag -/
def xmlReadContent (s : Str) : Option (Str × Str) := xmlReadText false 0 none s

/-! #### `serialize(format="xml", encoding=…)`: characters the requested encoding lacks

`XMLGenerator._write` encodes with `errors="xmlcharrefreplace"`: after `escape` / `quoteattr`, a character the encoding
cannot spell is written `&#N;` (decimal).  `enc c` = "the encoding has `c`" (every encoding has ASCII). -/

/-- `'%d' % n` -/
def natDigits (n : Nat) : Str :=
  if h : n < 10 then [hexDigit false n] else natDigits (n / 10) ++ [hexDigit false (n % 10)]
termination_by n
decreasing_by omega

def xmlCharRef (c : Char) : Str := '&' :: '#' :: (natDigits c.toNat ++ [';'])

/-- character data under an encoding -/
def xmlTextCharEnc (enc : Char → Bool) (c : Char) : Str :=
  if enc c || c.toNat < 128 then xmlTextChar c else xmlCharRef c

def xmlWriteTextEnc (enc : Char → Bool) (s : Str) : Str := escAll (xmlTextCharEnc enc) s

def encAscii (c : Char) : Bool := c.toNat < 128
def encLatin1 (c : Char) : Bool := c.toNat < 256

end RV.C16
