import RV.C16.Text
import Mathlib.Tactic.SplitIfs
import RV.C16.LemTsvStr
/-
  C16, round g — XML text: an XML 1.0 parser undoes `escape` / `SPARQLXMLWriter._characters` on character data and
  `quoteattr` on attribute values, for every string of XML `Char`s.
-/
namespace RV.C16

theorem escAll_append (f : Char → Str) (a b : Str) : escAll f (a ++ b) = escAll f a ++ escAll f b := by
  induction a with
  | nil => rfl
  | cons c cs ih => simp [escAll, ih]

theorem ref_amp : xmlRefBody ['a', 'm', 'p'] = some '&' := by decide
theorem ref_lt : xmlRefBody ['l', 't'] = some '<' := by decide
theorem ref_gt : xmlRefBody ['g', 't'] = some '>' := by decide
theorem ref_quot : xmlRefBody ['q', 'u', 'o', 't'] = some '"' := by decide
theorem ref_9 : xmlRefBody ['#', '9'] = some '\t' := by decide
theorem ref_10 : xmlRefBody ['#', '1', '0'] = some '\n' := by decide
theorem ref_13 : xmlRefBody ['#', '1', '3'] = some '\r' := by decide

/-! ### character data -/

theorem readText_amp (br : Nat) (tail : Str) :
    xmlReadText false br none (sAmp ++ tail) = consSome '&' (xmlReadText false 0 none tail) := by
  simp +decide [sAmp, xmlReadText, ref_amp]

theorem readText_lt (br : Nat) (tail : Str) :
    xmlReadText false br none (sLt ++ tail) = consSome '<' (xmlReadText false 0 none tail) := by
  simp +decide [sLt, xmlReadText, ref_lt]

theorem readText_gt (br : Nat) (tail : Str) :
    xmlReadText false br none (sGt ++ tail) = consSome '>' (xmlReadText false 0 none tail) := by
  simp +decide [sGt, xmlReadText, ref_gt]

theorem readText_13 (br : Nat) (tail : Str) :
    xmlReadText false br none (sRef13 ++ tail) = consSome '\r' (xmlReadText false 0 none tail) := by
  simp +decide [sRef13, xmlReadText, ref_13]

/-- what the writer spells for one character is read back as that character -/
theorem readText_char (c : Char) (hx : xmlChar c = true) (br : Nat) (tail : Str) :
    ∃ br', xmlReadText false br none (xmlTextChar c ++ tail) = consSome c (xmlReadText false br' none tail) := by
  unfold xmlTextChar xmlEscChar
  split_ifs with h1 h2 h3 h4
  · subst h1; exact ⟨0, readText_13 br tail⟩
  · subst h2; exact ⟨0, readText_amp br tail⟩
  · subst h3; exact ⟨0, readText_gt br tail⟩
  · subst h4; exact ⟨0, readText_lt br tail⟩
  · refine ⟨if c = ']' then min 2 (br + 1) else 0, ?_⟩
    simp [xmlReadText, h1, h2, h3, h4, hx]

theorem readText_writeText (s : Str) (hs : s.all xmlChar = true) (br : Nat) (rest : Str) :
    xmlReadText false br none (xmlWriteText s ++ '<' :: rest) = some (s, '<' :: rest) := by
  unfold xmlWriteText
  induction s generalizing br with
  | nil => simp [escAll, xmlReadText]
  | cons c cs ih =>
    have h' : xmlChar c = true ∧ cs.all xmlChar = true := by simpa using hs
    obtain ⟨br', e⟩ := readText_char c h'.1 br (escAll xmlTextChar cs ++ '<' :: rest)
    simp only [escAll, List.append_assoc]
    rw [e, ih h'.2]; rfl

/-! ### attribute values -/

theorem readAttr_ref {q : Char} (hq : q = '"' ∨ q = '\'') (tail : Str) :
    xmlReadAttrQ q false none (sAmp ++ tail) = consSome '&' (xmlReadAttrQ q false none tail) ∧
    xmlReadAttrQ q false none (sLt ++ tail) = consSome '<' (xmlReadAttrQ q false none tail) ∧
    xmlReadAttrQ q false none (sGt ++ tail) = consSome '>' (xmlReadAttrQ q false none tail) ∧
    xmlReadAttrQ q false none (sRef9 ++ tail) = consSome '\t' (xmlReadAttrQ q false none tail) ∧
    xmlReadAttrQ q false none (sRef10 ++ tail) = consSome '\n' (xmlReadAttrQ q false none tail) ∧
    xmlReadAttrQ q false none (sRef13 ++ tail) = consSome '\r' (xmlReadAttrQ q false none tail) := by
  rcases hq with rfl | rfl <;>
    simp +decide [sAmp, sLt, sGt, sRef9, sRef10, sRef13, xmlReadAttrQ, ref_amp, ref_lt, ref_gt, ref_9, ref_10, ref_13]

theorem readAttr_quot (tail : Str) :
    xmlReadAttrQ '"' false none (sQuot ++ tail) = consSome '"' (xmlReadAttrQ '"' false none tail) := by
  simp +decide [sQuot, xmlReadAttrQ, ref_quot]

theorem readAttr_char {q : Char} (hq : q = '"' ∨ q = '\'') (c : Char) (hx : xmlChar c = true) (hcq : c ≠ q)
    (tail : Str) :
    xmlReadAttrQ q false none (xmlAttrChar c ++ tail) = consSome c (xmlReadAttrQ q false none tail) := by
  obtain ⟨ea, el, eg, e9, e10, e13⟩ := readAttr_ref hq tail
  unfold xmlAttrChar xmlEscChar
  split_ifs with h1 h2 h3 h4 h5 h6
  · subst h1; exact e10
  · subst h2; exact e13
  · subst h3; exact e9
  · subst h4; exact ea
  · subst h5; exact eg
  · subst h6; exact el
  · simp [xmlReadAttrQ, h1, h2, h3, h4, h6, hx, hcq]

theorem readAttr_str {q : Char} (hq : q = '"' ∨ q = '\'') (s : Str)
    (hs : ∀ c ∈ s, xmlChar c = true ∧ c ≠ q) (rest : Str) :
    xmlReadAttrQ q false none (escAll xmlAttrChar s ++ q :: rest) = some (s, rest) := by
  induction s with
  | nil => simp [escAll, xmlReadAttrQ]
  | cons c cs ih =>
    have hc := hs c (by simp)
    simp only [escAll, List.append_assoc]
    rw [readAttr_char hq c hc.1 hc.2, ih (fun x hx => hs x (by simp [hx]))]; rfl

/-- the value with `"` spelled `&quot;` -/
def attrQuotChar (c : Char) : Str := if c = '"' then sQuot else xmlAttrChar c

theorem readAttr_str_quot (s : Str) (hs : s.all xmlChar = true) (rest : Str) :
    xmlReadAttrQ '"' false none (escAll attrQuotChar s ++ '"' :: rest) = some (s, rest) := by
  induction s with
  | nil => simp [escAll, xmlReadAttrQ]
  | cons c cs ih =>
    have h' : xmlChar c = true ∧ cs.all xmlChar = true := by simpa using hs
    simp only [escAll, List.append_assoc]
    by_cases h : c = '"'
    · subst h
      have e : attrQuotChar '"' = sQuot := by decide
      rw [e, readAttr_quot, ih h'.2]; rfl
    · have e : attrQuotChar c = xmlAttrChar c := by simp [attrQuotChar, h]
      rw [e, readAttr_char (.inl rfl) c h'.1 h, ih h'.2]; rfl

theorem quotToRef_attrChar (c : Char) : escAll quotToRef (xmlAttrChar c) = attrQuotChar c := by
  unfold attrQuotChar xmlAttrChar xmlEscChar
  by_cases h : c = '"'
  · subst h; decide
  · simp only [h, if_false]
    split_ifs <;> first | decide | simp [escAll, quotToRef, h]

theorem escAll_quotToRef (s : Str) : escAll quotToRef (escAll xmlAttrChar s) = escAll attrQuotChar s := by
  induction s with
  | nil => rfl
  | cons c cs ih => simp only [escAll, escAll_append, quotToRef_attrChar, ih]

theorem hasChar_append (q : Char) (a b : Str) : hasChar q (a ++ b) = (hasChar q a || hasChar q b) := by
  induction a with
  | nil => simp [hasChar]
  | cons c cs ih => simp [hasChar, ih, Bool.or_assoc]

/-- the escapes never bring in a quote character -/
theorem hasChar_attrChar {q : Char} (hq : q = '"' ∨ q = '\'') (c : Char) :
    hasChar q (xmlAttrChar c) = (c == q) := by
  unfold xmlAttrChar xmlEscChar
  rcases hq with rfl | rfl <;>
    (split_ifs <;> first | (subst_vars; decide) | simp [hasChar])

theorem hasChar_escAll {q : Char} (hq : q = '"' ∨ q = '\'') (s : Str) :
    hasChar q (escAll xmlAttrChar s) = hasChar q s := by
  induction s with
  | nil => rfl
  | cons c cs ih => simp [escAll, hasChar_append, hasChar_attrChar hq, hasChar, ih]

theorem not_hasChar {q : Char} {s : Str} (h : hasChar q s = false) : ∀ c ∈ s, c ≠ q := by
  induction s with
  | nil => simp
  | cons c cs ih =>
    have h' : (c == q) = false ∧ hasChar q cs = false := by simpa [hasChar] using h
    intro x hx
    rcases List.mem_cons.mp hx with rfl | hx
    · simpa using h'.1
    · exact ih h'.2 x hx

theorem xmlReadAttr_quoteattr (s : Str) (hs : s.all xmlChar = true) (rest : Str) :
    xmlReadAttr (quoteattr s ++ rest) = some (s, rest) := by
  have hall : ∀ c ∈ s, xmlChar c = true := by simpa using hs
  unfold quoteattr
  simp only []
  split
  · split
    · simp only [List.cons_append, List.append_assoc, xmlReadAttr, true_or, if_true, escAll_quotToRef]
      exact readAttr_str_quot s hs rest
    · next h2 =>
      have h2' : hasChar '\'' s = false := by
        rw [← hasChar_escAll (.inr rfl)]; simpa using h2
      simp only [List.cons_append, List.append_assoc, xmlReadAttr, or_true, if_true]
      exact readAttr_str (.inr rfl) s (fun c hc => ⟨hall c hc, not_hasChar h2' c hc⟩) rest
  · next h1 =>
    have h1' : hasChar '"' s = false := by
      rw [← hasChar_escAll (.inl rfl)]; simpa using h1
    simp only [List.cons_append, List.append_assoc, xmlReadAttr, true_or, if_true]
    exact readAttr_str (.inl rfl) s (fun c hc => ⟨hall c hc, not_hasChar h1' c hc⟩) rest

/-! ### character references written for characters the encoding lacks -/

open Spec.Tsv in
theorem refNum_digit {d : Nat} (hd : d < 10) (acc : Nat) (r : Str) :
    refNum 10 acc (hexDigit false d :: r) = refNum 10 (acc * 10 + d) r := by
  simp [refNum, hexVal_hexDigit' false (show d < 16 by omega), hd]

theorem refNum_natDigits (n : Nat) (r : Str) : refNum 10 0 (natDigits n ++ r) = refNum 10 n r := by
  induction n using Nat.strongRecOn generalizing r with
  | ind n ih =>
    rw [natDigits]
    split
    · next h => simpa using refNum_digit h 0 r
    · next h =>
      have hlt : n / 10 < n := by omega
      rw [List.append_assoc, ih (n / 10) hlt, List.singleton_append, refNum_digit (Nat.mod_lt _ (by decide))]
      congr 1; omega

open Spec.Tsv in
theorem digit_ne_semicolon {d : Nat} (hd : d < 10) : hexDigit false d ≠ ';' := by
  have : ∀ d : Fin 10, hexDigit false d.val ≠ ';' := by decide
  exact this ⟨d, hd⟩

open Spec.Tsv in
theorem natDigits_spec (n : Nat) :
    (∀ c ∈ natDigits n, c ≠ ';') ∧ ∃ d ds, natDigits n = d :: ds ∧ d ≠ 'x' := by
  induction n using Nat.strongRecOn with
  | ind n ih =>
    rw [natDigits]
    split
    · next h =>
      refine ⟨by simpa using digit_ne_semicolon h, _, [], rfl, ?_⟩
      have : ∀ d : Fin 10, hexDigit false d.val ≠ 'x' := by decide
      exact this ⟨n, h⟩
    · next h =>
      obtain ⟨h1, d, ds, e, hx⟩ := ih (n / 10) (by omega)
      refine ⟨?_, d, ds ++ [hexDigit false (n % 10)], by rw [e]; rfl, hx⟩
      intro c hc
      rcases List.mem_append.mp hc with hc | hc
      · exact h1 c hc
      · have : c = hexDigit false (n % 10) := by simpa using hc
        rw [this]; exact digit_ne_semicolon (Nat.mod_lt _ (by decide))

/-- the body of a reference is collected up to its `;` -/
theorem readText_refBody (b acc : Str) (hb : ∀ c ∈ b, c ≠ ';') (sk : Bool) (br : Nat) (tail : Str) :
    xmlReadText sk br (some acc) (b ++ ';' :: tail)
      = match xmlRefBody (acc ++ b) with
        | some x => consSome x (xmlReadText false 0 none tail)
        | none => none := by
  induction b generalizing acc with
  | nil => simp [xmlReadText] <;> rfl
  | cons c cs ih =>
    have hc : c ≠ ';' := hb c (by simp)
    rw [List.cons_append, xmlReadText]
    simp only [hc, if_false]
    rw [ih (acc ++ [c]) (fun x hx => hb x (by simp [hx]))]
    simp

theorem xmlRefBody_decimal (c : Char) (hx : xmlChar c = true) : xmlRefBody ('#' :: natDigits c.toNat) = some c := by
  obtain ⟨-, d, ds, e, hd⟩ := natDigits_spec c.toNat
  have hnum : refNum 10 0 (d :: ds) = some c.toNat := by
    have := refNum_natDigits c.toNat []
    simpa [e, refNum] using this
  rw [e]
  unfold xmlRefBody
  simp +decide [hd, hnum, refChar, chrOf_toNat, hx]

theorem readText_charRef (c : Char) (hx : xmlChar c = true) (br : Nat) (tail : Str) :
    xmlReadText false br none (xmlCharRef c ++ tail) = consSome c (xmlReadText false 0 none tail) := by
  unfold xmlCharRef
  rw [List.cons_append, xmlReadText]
  simp only [show ('&' : Char) ≠ '<' by decide, if_false, if_true]
  have := readText_refBody ('#' :: natDigits c.toNat) [] (by
    intro x hx'
    rcases List.mem_cons.mp hx' with rfl | h
    · decide
    · exact (natDigits_spec c.toNat).1 x h) false 0 tail
  simp only [List.nil_append, List.cons_append, List.append_assoc, xmlRefBody_decimal c hx] at this
  simpa using this

theorem readText_writeTextEnc (enc : Char → Bool) (s : Str) (hs : s.all xmlChar = true) (br : Nat) (rest : Str) :
    xmlReadText false br none (xmlWriteTextEnc enc s ++ '<' :: rest) = some (s, '<' :: rest) := by
  unfold xmlWriteTextEnc
  induction s generalizing br with
  | nil => simp [escAll, xmlReadText]
  | cons c cs ih =>
    have h' : xmlChar c = true ∧ cs.all xmlChar = true := by simpa using hs
    simp only [escAll, List.append_assoc]
    by_cases h : (enc c || decide (c.toNat < 128)) = true
    · have e1 : xmlTextCharEnc enc c = xmlTextChar c := by simp only [xmlTextCharEnc, h, if_true]
      obtain ⟨br', e⟩ := readText_char c h'.1 br (escAll (xmlTextCharEnc enc) cs ++ '<' :: rest)
      rw [e1, e, ih h'.2]; rfl
    · have e1 : xmlTextCharEnc enc c = xmlCharRef c := by simp [xmlTextCharEnc, h]
      rw [e1, readText_charRef c h'.1, ih h'.2]; rfl

end RV.C16
