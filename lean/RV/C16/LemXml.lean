import RV.C16.LemJson
/-
  C16 — lemmas for the XML round trip (tree level, then the text level of `wireText`).
-/
namespace RV.C16

/-- a term the XML form can carry at tree level: legal language tag, non-empty IRI / label / datatype -/
def xmlTermOk : Term → Bool
  | .iri s => !s.isEmpty
  | .bnode s => !s.isEmpty
  | .plain _ => true
  | .typed _ d => !d.isEmpty
  | .lang _ l => validLang l

theorem truthy_cons (c : Char) (cs : Str) : truthy (some (c :: cs)) = some (c :: cs) := rfl

theorem parse_termToXml {t : Term} (h : xmlTermOk t = true) : parseXmlTerm (termToXml t) = .ok t := by
  cases t with
  | iri s =>
    cases s with
    | nil => simp [xmlTermOk] at h
    | cons c cs => simp +decide [termToXml, parseXmlTerm, Xml.tag, Xml.text]
  | bnode s =>
    cases s with
    | nil => simp [xmlTermOk] at h
    | cons c cs => simp +decide [termToXml, parseXmlTerm, Xml.tag, Xml.text]
  | plain s => simp +decide [termToXml, parseXmlTerm, Xml.tag, Xml.text, Xml.attrs, alookup, truthy]
  | typed s d =>
    cases d with
    | nil => simp [xmlTermOk] at h
    | cons c cs => simp +decide [termToXml, parseXmlTerm, Xml.tag, Xml.text, Xml.attrs, alookup, truthy]
  | lang s l =>
    have hl : validLang l = true := h
    cases l with
    | nil => exact absurd rfl (validLang_ne_nil hl)
    | cons c cs =>
      simp +decide [termToXml, parseXmlTerm, Xml.tag, Xml.text, Xml.attrs, alookup, truthy, mkLiteral_lang hl]

theorem parseXmlBindings_bindingToXml (vars : List Str) (row : Row) (h : rowAll xmlTermOk row = true) :
    parseXmlBindings (bindingToXml vars row) = .ok (bindingPairs vars row) := by
  induction vars generalizing row with
  | nil => cases row <;> simp [bindingToXml, bindingPairs, parseXmlBindings]
  | cons v vs ih =>
    cases row with
    | nil => simp [bindingToXml, bindingPairs, parseXmlBindings]
    | cons c cs =>
      cases c with
      | none => simpa [bindingToXml, bindingPairs] using ih cs (by simpa [rowAll] using h)
      | some t =>
        have h' : xmlTermOk t = true ∧ rowAll xmlTermOk cs = true := by simpa [rowAll] using h
        simp +decide [bindingToXml, bindingPairs, parseXmlBindings, Xml.tag, Xml.attrs, Xml.kids, alookup,
          parse_termToXml h'.1, ih cs h'.2]

theorem parseXmlResults_map (vars : List Str) (rows : List Row) (h : ∀ r ∈ rows, rowAll xmlTermOk r = true) :
    parseXmlResults (rows.map (fun r => .node tResult [] [] (bindingToXml vars r)))
      = .ok (rows.map (bindingPairs vars)) := by
  induction rows with
  | nil => rfl
  | cons r rs ih =>
    have h1 := h r (by simp)
    have h2 : ∀ r ∈ rs, rowAll xmlTermOk r = true := fun x hx => h x (by simp [hx])
    simp [parseXmlResults, Xml.tag, Xml.kids, parseXmlBindings_bindingToXml vars r h1, ih h2]

theorem headVars_map (vars : List Str) :
    headVars (vars.map (fun v => Xml.node tVariable [(aName, v)] [] [])) = .ok vars := by
  induction vars with
  | nil => rfl
  | cons v vs ih => simp [headVars, Xml.tag, Xml.attrs, alookup, ih]

theorem ofXml_toXml_select {vars : List Str} {rows : List Row} (h : Aligned vars rows)
    (hl : ∀ r ∈ rows, rowAll xmlTermOk r = true) :
    ofXml (toXml (.select vars rows)) = .ok (.select vars rows) := by
  simp +decide [toXml, ofXml, headXml, findTag, allHeadVars, Xml.tag, Xml.kids, headVars_map,
    parseXmlResults_map vars rows hl, map_align h]

theorem ofXml_toXml_ask (b : Bool) : ofXml (toXml (.ask b)) = .ok (.ask b) := by
  cases b <;> rfl

/-! ### text level -/

theorem readPieces_writeChars (s : Str) (h : s.all xmlChar = true) :
    readPieces false (writeChars s) = some s := by
  induction s with
  | nil => rfl
  | cons c cs ih =>
    have hc : xmlChar c = true ∧ cs.all xmlChar = true := by simpa using h
    by_cases e : c = '\r'
    · subst e
      simp [writeChars, readPieces, ih hc.2]
      decide
    · simp [writeChars, readPieces, e, hc.1, ih hc.2]

theorem wireText_of_xmlChars {s : Str} (h : s.all xmlChar = true) : wireText s = some s :=
  readPieces_writeChars s h

theorem wireAttr_of_xmlChars {s : Str} (h : s.all xmlChar = true) : wireAttr s = some s := by
  simp [wireAttr, h]

/-- every character of every string of the term is an XML 1.0 `Char` -/
def xmlSafeTerm : Term → Bool
  | .iri s => s.all xmlChar
  | .bnode s => s.all xmlChar
  | .plain s => s.all xmlChar
  | .typed s d => s.all xmlChar && d.all xmlChar
  | .lang s l => s.all xmlChar && l.all xmlChar

theorem wireTerm_of_safe {t : Term} (h : xmlSafeTerm t = true) : wireTerm t = some t := by
  cases t with
  | iri s => simp [wireTerm, wireText_of_xmlChars (show s.all xmlChar = true from h)]
  | bnode s => simp [wireTerm, wireText_of_xmlChars (show s.all xmlChar = true from h)]
  | plain s => simp [wireTerm, wireText_of_xmlChars (show s.all xmlChar = true from h)]
  | typed s d =>
    have h' : s.all xmlChar = true ∧ d.all xmlChar = true := by simpa [xmlSafeTerm] using h
    simp [wireTerm, wireText_of_xmlChars h'.1, wireAttr_of_xmlChars h'.2]
  | lang s l =>
    have h' : s.all xmlChar = true ∧ l.all xmlChar = true := by simpa [xmlSafeTerm] using h
    simp [wireTerm, wireText_of_xmlChars h'.1, wireAttr_of_xmlChars h'.2]

theorem wireRow_of_safe {r : Row} (h : rowAll xmlSafeTerm r = true) : wireRow r = some r := by
  induction r with
  | nil => rfl
  | cons c cs ih =>
    cases c with
    | none => simp [wireRow, ih (by simpa [rowAll] using h)]
    | some t =>
      have h' : xmlSafeTerm t = true ∧ rowAll xmlSafeTerm cs = true := by simpa [rowAll] using h
      simp [wireRow, wireTerm_of_safe h'.1, ih h'.2]

theorem wireRows_of_safe {rows : List Row} (h : ∀ r ∈ rows, rowAll xmlSafeTerm r = true) :
    wireRows rows = some rows := by
  induction rows with
  | nil => rfl
  | cons r rs ih =>
    simp [wireRows, wireRow_of_safe (h r (by simp)), ih (fun x hx => h x (by simp [hx]))]

theorem wireStrs_of_safe {vs : List Str} (h : ∀ v ∈ vs, v.all xmlChar = true) : wireStrs vs = some vs := by
  induction vs with
  | nil => rfl
  | cons v vs ih =>
    simp [wireStrs, wireAttr_of_xmlChars (h v (by simp)), ih (fun x hx => h x (by simp [hx]))]

end RV.C16
