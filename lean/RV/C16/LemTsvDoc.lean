import RV.C16.LemTsvCell
/-
  C16 — the whole TSV document: header, lines, rows.
-/
namespace RV.C16
open Spec.Tsv

/-- a variable name of the header: VARNAME, and no character Python's `str.strip()` would remove
    (U+1680 is the one VARNAME character that is also Python white space) -/
def varOk (v : Str) : Bool := validVarName v && v.all (fun c => !pySpace c)

/-- what the TSV theorem assumes of a table: legal variable names, rows aligned, terms with a TSV spelling -/
structure TsvOk (vars : List Str) (rows : List Row) : Prop where
  names : ∀ v ∈ vars, varOk v = true
  len : ∀ r ∈ rows, r.length = vars.length
  terms : ∀ r ∈ rows, rowAll tsvTermOk r = true

/-! ### rows -/

theorem readCells_renderCells (chs : List CellChoice) (r : Row) (h : rowAll tsvTermOk r = true) :
    readCells (renderCells chs r) = .ok r := by
  induction r generalizing chs with
  | nil => rfl
  | cons c cs ih =>
    cases c with
    | none =>
      have := ih chs.tail (by simpa [rowAll] using h)
      simp [renderCells, renderCell, readCells, readCell, this]
    | some t =>
      have h' : tsvTermOk t = true ∧ rowAll tsvTermOk cs = true := by simpa [rowAll] using h
      simp [renderCells, readCells, readCell_renderCell _ h'.1, ih chs.tail h'.2]

theorem rowAll_mem {p : Term → Bool} {r : Row} (h : rowAll p r = true) : ∀ t, some t ∈ r → p t = true := by
  induction r with
  | nil => simp
  | cons c cs ih =>
    intro t ht
    cases c with
    | none =>
      have : some t ∈ cs := by simpa using ht
      exact ih (by simpa [rowAll] using h) t this
    | some u =>
      have h' : p u = true ∧ rowAll p cs = true := by simpa [rowAll] using h
      rcases List.mem_cons.mp ht with e | e
      · cases e; exact h'.1
      · exact ih h'.2 t e

theorem renderCells_clean (chs : List CellChoice) (r : Row) (h : rowAll tsvTermOk r = true) :
    ∀ p ∈ renderCells chs r, ∀ x ∈ p, clean x := by
  induction r generalizing chs with
  | nil => simp [renderCells]
  | cons c cs ih =>
    intro p hp
    simp only [renderCells, List.mem_cons] at hp
    rcases hp with rfl | hp
    · apply renderCell_clean
      intro t ht; subst ht
      exact rowAll_mem h t (by simp)
    · refine ih chs.tail ?_ p hp
      cases c with
      | none => simpa [rowAll] using h
      | some t => have h' : tsvTermOk t = true ∧ rowAll tsvTermOk cs = true := by simpa [rowAll] using h
                  exact h'.2

theorem renderCells_length (chs : List CellChoice) (r : Row) : (renderCells chs r).length = r.length := by
  induction r generalizing chs with
  | nil => rfl
  | cons c cs ih => simp [renderCells, ih]

theorem alignCells_self (r : Row) : alignCells r.length r = r := by
  induction r with
  | nil => rfl
  | cons c cs ih => simp [alignCells, ih]

theorem line_clean (chs : List CellChoice) (r : Row) (h : rowAll tsvTermOk r = true) :
    '\n' ∉ joinWith '\t' (renderCells chs r) := by
  intro hm
  rcases mem_joinWith hm with e | ⟨p, hp, hx⟩
  · exact absurd e (by decide)
  · exact (renderCells_clean chs r h p hp _ hx).2 rfl

/-- one data line: it is not skipped as blank, and its cells are the row -/
theorem readRow_line (chs : List CellChoice) (r : Row) (h : rowAll tsvTermOk r = true) :
    ¬ (joinWith '\t' (renderCells chs r) = [] ∧ 1 < r.length) ∧
    (match readCells (splitOn '\t' (joinWith '\t' (renderCells chs r))) with
      | .ok cells => .ok (alignCells r.length cells)
      | .error e => .error e) = (.ok r : Except Err Row) := by
  cases r with
  | nil => exact ⟨by simp, rfl⟩
  | cons c cs =>
    have hne : renderCells chs (c :: cs) ≠ [] := by simp [renderCells]
    have hnt : ∀ p ∈ renderCells chs (c :: cs), '\t' ∉ p :=
      fun p hp hm => (renderCells_clean chs _ h p hp _ hm).1 rfl
    constructor
    · rintro ⟨he, hl⟩
      cases cs with
      | nil => simp at hl
      | cons d ds => exact joinWith_two_ne_nil _ _ _ _ (by simpa [renderCells] using he)
    · rw [splitOn_joinWith hne hnt, readCells_renderCells chs _ h]
      simp only
      rw [alignCells_self]

theorem readRows_renderLines (n : Nat) (chs : List (List CellChoice)) (rows : List Row)
    (hlen : ∀ r ∈ rows, r.length = n) (ht : ∀ r ∈ rows, rowAll tsvTermOk r = true) :
    readRows n (renderLines chs rows) = .ok rows := by
  induction rows generalizing chs with
  | nil => rfl
  | cons r rs ih =>
    have hr : r.length = n := hlen r (by simp)
    have ih' := ih chs.tail (fun x hx => hlen x (by simp [hx])) (fun x hx => ht x (by simp [hx]))
    obtain ⟨h1, h2⟩ := readRow_line (chs.headD []) r (ht r (by simp))
    simp only [renderLines, readRows]
    rw [hr] at h1 h2
    rw [if_neg h1]
    revert h2
    cases readCells (splitOn '\t' (joinWith '\t' (renderCells (chs.headD []) r))) with
    | error e => intro h2; simp at h2
    | ok cells =>
      intro h2
      simp only [Except.ok.injEq] at h2
      simp [ih', h2]

theorem renderLines_clean (chs : List (List CellChoice)) (rows : List Row)
    (ht : ∀ r ∈ rows, rowAll tsvTermOk r = true) : ∀ l ∈ renderLines chs rows, '\n' ∉ l := by
  induction rows generalizing chs with
  | nil => simp [renderLines]
  | cons r rs ih =>
    intro l hl
    simp only [renderLines, List.mem_cons] at hl
    rcases hl with rfl | hl
    · exact line_clean _ r (ht r (by simp))
    · exact ih chs.tail (fun x hx => ht x (by simp [hx])) l hl

/-! ### header -/

theorem validVarName_chars {v : Str} (h : validVarName v = true) : ∀ c ∈ v, varTail c = true := by
  cases v with
  | nil => simp
  | cons a r =>
    simp only [validVarName, Bool.and_eq_true] at h
    intro c hc
    rcases List.mem_cons.mp hc with rfl | hc
    · rcases Bool.or_eq_true _ _ |>.mp h.1 with h | h <;> simp [varTail, h]
    · exact List.all_eq_true.mp h.2 c hc

theorem readVars_map {vars : List Str} (h : ∀ v ∈ vars, varOk v = true) :
    readVars (vars.map ('?' :: ·)) = .ok vars := by
  induction vars with
  | nil => rfl
  | cons v vs ih =>
    have hv : validVarName v = true := by
      have := h v (by simp); simp only [varOk, Bool.and_eq_true] at this; exact this.1
    simp [readVars, readVar, hv, ih (fun x hx => h x (by simp [hx]))]

theorem headerCell_clean {v : Str} (h : varOk v = true) : ∀ x ∈ ('?' :: v), clean x := by
  simp only [varOk, Bool.and_eq_true] at h
  intro x hx
  rcases List.mem_cons.mp hx with rfl | hx
  · constructor <;> decide
  · exact varTail_clean (validVarName_chars h.1 x hx)

theorem header_clean {vars : List Str} (h : ∀ v ∈ vars, varOk v = true) : '\n' ∉ header vars := by
  intro hm
  rcases mem_joinWith hm with e | ⟨p, hp, hx⟩
  · exact absurd e (by decide)
  · obtain ⟨v, hv, rfl⟩ := List.mem_map.mp hp
    exact (headerCell_clean (h v hv) _ hx).2 rfl

theorem header_eq_nil_iff (vars : List Str) : header vars = [] ↔ vars = [] := by
  constructor
  · intro h
    cases vars with
    | nil => rfl
    | cons v vs => exact absurd h (joinWith_ne_nil ⟨'?' :: v, by simp, by simp⟩)
  · rintro rfl; rfl

/-- the header line is read back as the variable list -/
theorem read_header {vars : List Str} (h : ∀ v ∈ vars, varOk v = true) :
    (if header vars = [] then (.ok [] : Except Err (List Str))
     else readVars (splitOn '\t' (pyStrip (header vars)))) = .ok vars := by
  cases vars with
  | nil => rfl
  | cons v vs =>
    have hne : header (v :: vs) ≠ [] := fun e => by simpa using (header_eq_nil_iff _).mp e
    rw [if_neg hne]
    have hstrip : pyStrip (header (v :: vs)) = header (v :: vs) := by
      apply pyStrip_eq
      · intro c cs hc
        have : c = '?' := by
          cases vs with
          | nil => simp [header, joinWith] at hc; exact hc.1.symm
          | cons w ws => simp [header, joinWith] at hc; exact hc.1.symm
        subst this; decide
      · apply lastOk_joinWith
        intro x hx
        obtain ⟨w, hw, rfl⟩ := List.mem_map.mp hx
        refine ⟨by simp, lastOk_of_all ?_⟩
        have := h w hw
        simp only [varOk, Bool.and_eq_true] at this
        simp only [List.all_cons, Bool.and_eq_true]
        exact ⟨by decide, this.2⟩
    rw [hstrip]
    have hnt : ∀ p ∈ (v :: vs).map ('?' :: ·), '\t' ∉ p := by
      intro p hp hm
      obtain ⟨w, hw, rfl⟩ := List.mem_map.mp hp
      exact (headerCell_clean (h w hw) _ hm).1 rfl
    show readVars (splitOn '\t' (joinWith '\t' ((v :: vs).map ('?' :: ·)))) = _
    rw [splitOn_joinWith (by simp) hnt, readVars_map h]

/-! ### the document -/

theorem readTsv_render (chs : List (List CellChoice)) {vars : List Str} {rows : List Row} (h : TsvOk vars rows) :
    readTsv (render chs vars rows) = .ok (.select vars rows) := by
  have hl : ∀ l ∈ header vars :: renderLines chs rows, '\n' ∉ l := by
    intro l hl
    rcases List.mem_cons.mp hl with rfl | hl
    · exact header_clean h.names
    · exact renderLines_clean chs rows h.terms l hl
  unfold readTsv render
  rw [readLines_unlines hl]
  simp only
  rw [read_header h.names]
  simp only
  simp only [readRows_renderLines vars.length chs rows h.len h.terms]

end RV.C16
