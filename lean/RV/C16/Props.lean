import RV.C16.Lemmas
import RV.C16.Tables
/-
  C16 — "SPARQL results survive their exchange formats": property statements and theorems.

  Vocabulary (definitions in Model.lean / Spec.lean / Lem*.lean):
    Aligned vars rows        distinct variables, every row has one cell per variable
    rowAll p row             every bound term of the row satisfies p
    langOk / xmlTermOk / tsvTermOk   the term is one rdflib can hold / XML / TSV can spell (legal language
                             tag; non-empty IRI, label, datatype; IRIREF / BLANK_NODE_LABEL / LANGTAG syntax)
    TsvOk vars rows          legal variable names, aligned rows, terms with a TSV spelling
    Spec.Tsv.render chs …    the W3C reference TSV writer under the choices `chs`
-/
namespace RV.C16
open Spec.Tsv

/-! ### Statements -/

/-- JSON: serialise, parse back: same variables in order, same row sequence, every cell the same term
    or unbound — rows in which nothing is bound included — and both booleans. -/
def Statement_json_roundtrip : Prop :=
  (∀ b, ofJson (toJson (.ask b)) = .ok (.ask b)) ∧
  ∀ vars rows, Aligned vars rows → (∀ r ∈ rows, rowAll langOk r = true) →
    ofJson (toJson (.select vars rows)) = .ok (.select vars rows)

/-- XML at tree level (element tree written = element tree read). -/
def Statement_xml_tree_roundtrip : Prop :=
  (∀ b, ofXml (toXml (.ask b)) = .ok (.ask b)) ∧
  ∀ vars rows, Aligned vars rows → (∀ r ∈ rows, rowAll xmlTermOk r = true) →
    ofXml (toXml (.select vars rows)) = .ok (.select vars rows)

/-- XML through the text level, at full strength: every table of legal terms — control characters
    included, as the property's quantifier says. -/
def Statement_xml_roundtrip : Prop :=
  (∀ b, xmlRoundTrip (.ask b) = .ok (.ask b)) ∧
  ∀ vars rows, Aligned vars rows → (∀ r ∈ rows, rowAll xmlTermOk r = true) →
    xmlRoundTrip (.select vars rows) = .ok (.select vars rows)

/-- every character of every string of the table is an XML 1.0 `Char` (decidable) -/
def XmlSafe (vars : List Str) (rows : List Row) : Prop :=
  (∀ v ∈ vars, v.all xmlChar = true) ∧ ∀ r ∈ rows, rowAll xmlSafeTerm r = true

/-- character data through `SPARQLXMLWriter._characters` and an XML 1.0 parser comes back unchanged
    (carriage returns included) whenever XML can carry the characters at all -/
def Statement_xml_text_survives : Prop :=
  ∀ s : Str, s.all xmlChar = true → wireText s = some s

/-- the TSV string codec: for both quote characters, every string, every choice of optional escapes
    and whatever follows the closing quote -/
def Statement_tsv_cell_roundtrip : Prop :=
  ∀ q : Char, q = '"' ∨ q = '\'' → ∀ (ks : List Nat) (s rest : Str),
    scanStr q (escStr q ks s ++ q :: rest) = some (s, rest)

/-- the TSV reader recovers exactly the table from every W3C-conformant rendering of it: every choice
    stream, rows with no bound cell, leading / trailing unbound columns, zero rows, zero variables. -/
def Statement_tsv_reader_complete : Prop :=
  ∀ (chs : List (List CellChoice)) (vars : List Str) (rows : List Row), TsvOk vars rows →
    readTsv (render chs vars rows) = .ok (.select vars rows)

/-- the string value the CSV form must preserve: `str(term)`; a blank node's label in the `_:label` form
    CSV prescribes; nothing for an unbound cell -/
def csvSpec : Cell → Str
  | none => []
  | some (.bnode l) => '_' :: ':' :: l
  | some t => strOf t

/-- CSV keeps the variables and the row sequence (the table read back is the cell-wise image of the
    table written: same number of rows, each with the same cells in order), and the image of every cell
    has the cell's string value. -/
def Statement_csv_preserves : Prop :=
  ∀ vars rows, (∀ r ∈ rows, r.length = vars.length) →
    ∃ f : Cell → Cell, (∀ c, cellStr (f c) = csvSpec c) ∧
      csvRoundTrip (.select vars rows) = .ok (.select vars (rows.map (fun r => r.map f)))

/-- the reader model's ECHAR decoding is exactly `rdflib.compat._string_escape_map`
    (`Tables.stringEscapeMap` is regenerated from the source on every run) -/
def Statement_escape_table : Prop :=
  (∀ p ∈ Tables.stringEscapeMap, unescChar p.1 = some p.2) ∧
  ∀ e d, unescChar e = some d → (e, d) ∈ Tables.stringEscapeMap

/-- the result container: whatever part of a lazily evaluated result was handed out before — by fresh
    iterators advanced any number of times, by `len` / `bool` / `bindings`, in any order — `Result.bindings`
    (what every serializer writes) is then the full table, rows in which nothing is bound included; the same
    for a result built from a list. -/
def Statement_bindings_complete : Prop :=
  ∀ (full : List Row) (ops : List HOp),
    ((Lazy.run ⟨[], some full⟩ ops).force.mat = full) ∧ ((Lazy.run ⟨full, none⟩ ops).force.mat = full)

/-- several iterators alive at once over one result, interleaved arbitrarily with `len` / `bool` / `bindings` /
    serialisations: after ANY history, what a serializer writes (`Result.bindings`) is the full table —
    for a lazily evaluated result and for one built from a list. -/
def Statement_bindings_complete_interleaved : Prop :=
  ∀ (full : List Row) (ops : List MOp),
    ((Multi.lazy full).run ops).1.force.mat = full ∧ ((Multi.listed full).run ops).1.force.mat = full

/-- what the code guarantees about the rows handed out: the iterators that read from the evaluator's generator
    hand out, taken together and in the order of the history, exactly the rows with a binding of a PREFIX of
    the table — no row twice, none skipped, table order — however their `next()` calls interleave. -/
def Statement_gen_yields_prefix : Prop :=
  ∀ (full : List Row) (ops : List MOp),
    ∃ pre rest, pre ++ rest = full ∧ genYields ((Multi.lazy full).run ops).2 = pre.filter rowBound

/-- … and the whole table once the generator is dry, provided nothing read `Result.bindings` in between
    (a `len()` / serialisation moves the remaining rows into the list, and the live iterators then stop early). -/
def Statement_gen_yields_all_when_dry : Prop :=
  ∀ (full : List Row) (ops : List MOp),
    ops.any isForce = false → ((Multi.lazy full).run ops).1.pending = [] →
      genYields ((Multi.lazy full).run ops).2 = full.filter rowBound

/-! ### Statements, text level (round g) -/

/-- JSON strings: `json.loads`' string scanner (`scanstring`, strict) recovers every string from EVERY RFC 8259
    spelling of it — per character raw, two-character escape, `\/`, `\uXXXX` in either case, a surrogate pair above
    U+FFFF; control characters, quotes, backslashes, non-BMP characters included — whatever follows the closing quote. -/
def Statement_json_text_roundtrip : Prop :=
  ∀ (ks : List Nat) (s rest : Str), jsonScan (jsonSpell ks s ++ '"' :: rest) = .ok (s, rest, false)

/-- … in particular what Python's two encoders write — `encode_basestring` (`ensure_ascii=False`, what rdflib's
    writer passes) and `encode_basestring_ascii` (the `json.dumps` default) — for every string: cell values,
    variable names, keys. -/
def Statement_json_py_text_roundtrip : Prop :=
  ∀ (ascii : Bool) (s : Str), jsonLoadsStr (pyDumpsStr ascii s) = .ok s

/-- CSV text: Python's `csv.reader` (the `_csv.c` state machine over the lines of a `newline=""` source) recovers EVERY
    field table — any number of rows and fields, zero included, any characters: delimiters, quotes, CR, LF, CR LF inside
    fields, empty fields, the record that is one empty field — from what `csv.writer` writes (QUOTE_MINIMAL, doubled
    quotes, CR LF), and from every other RFC 4180 rendering: fields quoted without need, bare LF line ends. -/
def Statement_csv_text_roundtrip : Prop :=
  ∀ (qss : List (List Bool)) (lf : Bool) (t : List (List Str)), csvParse (csvRender qss lf t) = .ok t

/-- … hence rdflib's CSV writer and reader composed through the TEXT behave exactly as the field-table model that
    `csv_preserves` is about: nothing is lost or altered by quoting (known lossy cases are those of `csv_preserves`:
    a blank node comes back labelled `_:label`, IRIs outside http(s) and typed / tagged literals come back as plain
    literals with the same string value). -/
def Statement_csv_text_preserves : Prop :=
  (∀ r, csvTextRoundTrip r = csvRoundTrip r) ∧
  ∀ vars rows, (∀ r ∈ rows, r.length = vars.length) →
    ∃ f : Cell → Cell, (∀ c, cellStr (f c) = csvSpec c) ∧
      csvTextRoundTrip (.select vars rows) = .ok (.select vars (rows.map (fun r => r.map f)))

/-- XML character data: what `SPARQLXMLWriter._characters` / `XMLGenerator.characters` write for a string (`&amp;`
    `&lt;` `&gt;`, carriage return as `&#13;`) is delivered unchanged by an XML 1.0 parser (references, end-of-line
    normalisation, the `Char` range, no `]]>`), for every string XML can carry — lexical forms, IRIs, labels. -/
def Statement_xml_chardata_roundtrip : Prop :=
  ∀ (s rest : Str), s.all xmlChar = true → xmlReadContent (xmlWriteText s ++ '<' :: rest) = some (s, '<' :: rest)

/-- XML attribute values: what `quoteattr` writes (tab, LF, CR as character references; the quote character chosen by
    what the value holds, `&quot;` when it holds both) is delivered unchanged after attribute-value normalisation —
    variable names, datatype IRIs, language tags. -/
def Statement_xml_attr_roundtrip : Prop :=
  ∀ (s rest : Str), s.all xmlChar = true → xmlReadAttr (quoteattr s ++ rest) = some (s, rest)

/-- `serialize(format="xml", encoding=E)`: whatever the encoding can spell (`enc`, any predicate), character data written
    by `_characters` and re-spelled by `XMLGenerator`'s `xmlcharrefreplace` error handler (`&#N;` for every character the
    encoding lacks) is delivered unchanged. -/
def Statement_xml_chardata_any_encoding : Prop :=
  ∀ (enc : Char → Bool) (s rest : Str), s.all xmlChar = true →
    xmlReadContent (xmlWriteTextEnc enc s ++ '<' :: rest) = some (s, '<' :: rest)

/-- the JSON DOCUMENT (round h): `json.loads` as modelled — white space, `{ } [ ] : ,`, `true` / `false` / `null`, strings
    through `scanstring` — undoes `json.dumps` (default separators, `ensure_ascii=False`) on every number-free tree; hence
    rdflib's JSON writer and reader composed through the document TEXT give back every result: same variables in order,
    same rows, every cell the same term or unbound, rows in which nothing is bound included, both booleans. -/
def Statement_json_doc_roundtrip : Prop :=
  (∀ j, numFree j = true → jsonParse (jsonWrite j) = .ok j) ∧
  (∀ b, jsonDocRoundTrip (.ask b) = .ok (.ask b)) ∧
  ∀ vars rows, Aligned vars rows → (∀ r ∈ rows, rowAll langOk r = true) →
    jsonDocRoundTrip (.select vars rows) = .ok (.select vars rows)

/-! ### Theorems -/

theorem json_text_roundtrip : Statement_json_text_roundtrip := fun ks s rest => jsonScan_jsonSpell ks s rest

theorem json_doc_roundtrip : Statement_json_doc_roundtrip :=
  ⟨jsonParse_jsonWrite,
   fun b => by rw [jsonDocRoundTrip_eq]; exact ofJson_toJson_ask b,
   fun _ _ h hl => by rw [jsonDocRoundTrip_eq]; exact ofJson_toJson_select h hl⟩

/-- the document of a one-row result, as `json.dumps` writes it -/
example : jsonWrite (toJson (.select [['a']] [[some (.lang ['x', '"'] ['e', 'n'])]]))
    = "{\"results\": {\"bindings\": [{\"a\": {\"type\": \"literal\", \"value\": \"x\\\"\", \"xml:lang\": \"en\"}}]}, \"head\": {\"vars\": [\"a\"]}}".toList := by
  decide
/-- no trailing comma, no number -/
example : (jsonParse "[true,]".toList matches .error .value) = true := by decide
example : (jsonParse "[1]".toList matches .error .unmodelled) = true := by decide

theorem json_py_text_roundtrip : Statement_json_py_text_roundtrip := fun a s => jsonLoadsStr_pyDumpsStr a s

/-- non-vacuity / regression anchors of the text level: a string with a quote, a backslash, a control character, a
    line feed, U+007F, a Latin-1 and a non-BMP character, in Python's two spellings -/
example : pyDumpsStr false ['a', '"', '\\', '\x01', '\n', '\x7f', 'é', Char.ofNat 0x1F600]
    = "\"a\\\"\\\\\\u0001\\n\x7fé😀\"".toList := by decide
example : pyDumpsStr true ['a', '"', '\\', '\x01', '\n', '\x7f', 'é', Char.ofNat 0x1F600]
    = "\"a\\\"\\\\\\u0001\\n\\u007f\\u00e9\\ud83d\\ude00\"".toList := by decide
/-- a lone surrogate escape is outside the model, an unknown escape is an error -/
example : (jsonLoadsStr ['"', '\\', 'u', 'd', '8', '3', 'd', '"'] matches .error .unmodelled) = true := by decide
example : (jsonLoadsStr ['"', '\\', 'x', '4', '1', '"'] matches .error .value) = true := by decide

theorem bindings_complete_interleaved : Statement_bindings_complete_interleaved := by
  intro full ops
  constructor
  · rw [mforce_mat _ (mrun_ok _ ops (by intro h; cases h)), mrun_all]; simp [Multi.all, Multi.lazy]
  · rw [mforce_mat _ (mrun_ok _ ops (by intro _; rfl)), mrun_all]; simp [Multi.all, Multi.listed]

theorem gen_yields_prefix : Statement_gen_yields_prefix := by
  intro full ops
  obtain ⟨pre, rest, h1, h2, -, -⟩ := mrun_yinv ops (yinv_lazy full)
  exact ⟨pre, rest, h1, by simpa using h2⟩

theorem gen_yields_all_when_dry : Statement_gen_yields_all_when_dry := by
  intro full ops hnf hdry
  obtain ⟨pre, rest, h1, h2, -, h4⟩ := mrun_yinv ops (yinv_lazy full)
  have := h4 (by simp [hnf])
  rw [hdry] at this
  obtain ⟨-, rfl⟩ := this
  simp only [List.append_nil] at h1
  subst h1
  simpa using h2

/-- not guaranteed (and false): that one iterator sees the whole table.  Two iterators advanced alternately
    over a two-row lazy result get one row each. -/
theorem interleaved_iterators_share_rows :
    ((Multi.lazy [[some (.iri ['x'])], [some (.iri ['y'])]]).run [.openIt, .openIt, .next 0, .next 1, .next 0, .next 1]).2
      = [.opened, .opened, .row [some (.iri ['x'])] true, .row [some (.iri ['y'])] true, .stop, .stop] := by decide


theorem bindings_complete : Statement_bindings_complete := by
  intro full ops
  constructor
  · rw [force_mat, run_all]; simp [Lazy.all]
  · rw [force_mat, run_all]; simp [Lazy.all]

/-- regression witness for `fix: Result.__iter__ keeps rows in which nothing is bound …`: the previous
    `__iter__` did not record an all-unbound row it pulled from the generator — one `next()` on a
    two-row result whose first row is all-unbound left `bindings` with one row -/
theorem old_iter_forgets_unbound_rows :
    ((pullOld 1 [[none], [some (.iri ['x'])]] [] []).1.force.mat) = [[some (.iri ['x'])]] := by decide


theorem escape_table : Statement_escape_table := by
  refine ⟨by decide, ?_⟩
  intro e d h
  unfold unescChar at h
  split_ifs at h <;> (cases h; subst_vars; decide)


theorem json_roundtrip : Statement_json_roundtrip :=
  ⟨ofJson_toJson_ask, fun _ _ h hl => ofJson_toJson_select h hl⟩

theorem xml_tree_roundtrip : Statement_xml_tree_roundtrip :=
  ⟨ofXml_toXml_ask, fun _ _ h hl => ofXml_toXml_select h hl⟩

theorem xml_text_survives : Statement_xml_text_survives := fun _ h => wireText_of_xmlChars h

/-- known finding C16-K1: XML 1.0 has no spelling for U+0001 -/
theorem xml_roundtrip_witness : ¬ Statement_xml_roundtrip := by
  intro h
  have := h.2 [['a']] [[some (.plain ['\x01'])]] ⟨by decide, by decide⟩ (by decide)
  have e : xmlRoundTrip (.select [['a']] [[some (.plain ['\x01'])]]) = .error .parse := rfl
  rw [e] at this
  cases this

/-- … and that is the only obstacle: tables whose characters XML can carry do round-trip -/
theorem xml_roundtrip_partial :
    (∀ b, xmlRoundTrip (.ask b) = .ok (.ask b)) ∧
    ∀ vars rows, Aligned vars rows → (∀ r ∈ rows, rowAll xmlTermOk r = true) → XmlSafe vars rows →
      xmlRoundTrip (.select vars rows) = .ok (.select vars rows) := by
  refine ⟨fun b => ofXml_toXml_ask b, ?_⟩
  intro vars rows h hl hs
  simp only [xmlRoundTrip, wireResult, wireStrs_of_safe hs.1, wireRows_of_safe hs.2]
  exact ofXml_toXml_select h hl

/-- regression witness for `fix: SPARQL XML result writer writes a carriage return as a character
    reference`: the previous writer turned `a\rb` into `a\nb` -/
theorem xml_old_writer_loses_cr : wireTextOld ['a', '\r', 'b'] = some ['a', '\n', 'b'] := by decide

theorem tsv_cell_roundtrip : Statement_tsv_cell_roundtrip := fun _ hq ks s rest => scanStr_escStr hq ks s rest

theorem tsv_reader_complete : Statement_tsv_reader_complete := fun chs _ _ h => readTsv_render chs h

/-- regression witness for `fix: TSV result reader keeps rows in which no variable is bound`
    (DESIGN §7.2 #20): the previous reader returned one row for this two-row document -/
theorem tsv_old_reader_drops_unbound_rows :
    readTsvOld (render [] [['a'], ['b']] [[none, none], [some (.iri ['x']), some (.iri ['y'])]])
      = .ok (.select [['a'], ['b']] [[some (.iri ['x']), some (.iri ['y'])]]) := by rfl

theorem xml_chardata_roundtrip : Statement_xml_chardata_roundtrip :=
  fun s rest h => readText_writeText s h 0 rest

theorem xml_attr_roundtrip : Statement_xml_attr_roundtrip := fun s rest h => xmlReadAttr_quoteattr s h rest

theorem xml_chardata_any_encoding : Statement_xml_chardata_any_encoding :=
  fun enc s rest h => readText_writeTextEnc enc s h 0 rest

/-- known finding C16-K1 at the text level: the writer has no spelling for U+0001, the document is not well-formed -/
theorem xml_chardata_witness : xmlReadContent (xmlWriteText ['\x01'] ++ ['<']) = none := by decide

/-- without the `&#13;` of `_characters` a carriage return comes back as a line feed (regression anchor of C16-F3) -/
theorem xml_chardata_raw_cr : xmlReadContent ['a', '\r', 'b', '<'] = some (['a', '\n', 'b'], ['<']) := by decide

/-- the three quoting branches of `quoteattr` -/
example : quoteattr ['a', '<', '\n'] = "\"a&lt;&#10;\"".toList := by decide
example : quoteattr ['a', '"'] = "'a\"'".toList := by decide
example : quoteattr ['\'', '"'] = "\"'&quot;\"".toList := by decide

theorem csv_text_roundtrip : Statement_csv_text_roundtrip := csvParse_csvRender

theorem csv_preserves : Statement_csv_preserves := by
  intro vars rows h
  refine ⟨fun c => csvConvert (csvField c), ?_, csvRoundTrip_select vars rows h⟩
  intro c
  rw [cellStr_csvConvert]
  cases c with
  | none => rfl
  | some t => cases t <;> rfl

theorem csv_text_preserves : Statement_csv_text_preserves :=
  ⟨csvTextRoundTrip_eq, fun vars rows h => by rw [csvTextRoundTrip_eq]; exact csv_preserves vars rows h⟩

/-- the writer on a record with a delimiter, a quote, a line break, an empty field; the record of one empty field; the
    empty record -/
example : csvWrite [[['a', ','], ['"'], ['\r', '\n'], []], [[]], []]
    = "\"a,\",\"\"\"\",\"\r\n\",\r\n\"\"\r\n\r\n".toList := by decide

/-! ### Non-vacuity: the hypotheses are met by concrete, non-trivial tables -/

/-- two variables; a row with a tagged literal full of specials and an unbound cell, a row in which
    nothing is bound, a row with a typed literal and a blank node -/
def sampleRows : List Row :=
  [[some (.lang ['a', '\t', '"', '\\', '\n', '\r', '\''] ['e', 'n', '-', 'U', 'S']), none],
   [none, none],
   [some (.typed ['-', '1', '.', '5'] xsdDecimal), some (.bnode ['b', '.', '1'])]]

example : Aligned [['x'], ['y']] sampleRows := ⟨by decide, by decide⟩
example : ∀ r ∈ sampleRows, rowAll langOk r = true := by decide
example : ∀ r ∈ sampleRows, rowAll xmlTermOk r = true := by decide
example : XmlSafe [['x'], ['y']] sampleRows := ⟨by decide, by decide⟩
example : TsvOk [['x'], ['y']] sampleRows := ⟨by decide, by decide, by decide⟩
/-- the bare-token choice is really available for the sample's decimal -/
example : shortOk ['-', '1', '.', '5'] xsdDecimal = true := by decide
/-- a zero-variable table with two solutions is a `TsvOk` table too -/
example : TsvOk [] [[], []] := ⟨by decide, by decide, by decide⟩

end RV.C16
