import RV.C16.Lemmas
namespace RV.C16
theorem placeholder : True := trivial
end RV.C16
