/-
  C16 — model of rdflib's SPARQL result exchange formats (after the `fix:` commits of branch fix-C16).

  Anchors
    rdflib/plugins/sparql/results/jsonresults.py  termToJSON, _bindingToJSON, JSONResultSerializer.serialize,
                                                  JSONResult.__init__/_get_bindings, parseJsonTerm
    rdflib/plugins/sparql/results/xmlresults.py   SPARQLXMLWriter (write_header, write_ask, write_binding, _characters),
                                                  XMLResultSerializer.serialize, XMLResult.__init__, parseTerm
    rdflib/plugins/sparql/results/tsvresults.py   TSVResultParser.parse / convertTerm, HEADER / ROW / TERM grammar
                                                  (terminals of rdflib/plugins/sparql/parser.py)
    rdflib/plugins/sparql/results/csvresults.py   CSVResultSerializer.serialize / serializeTerm,
                                                  CSVResultParser.parse / parseRow / convertTerm
    rdflib/term.py                                Literal.__new__ (lang "" → None, lang+datatype → TypeError, language tag check)

  Representation
    * strings are `List Char` (Unicode scalar values; lone surrogates are outside every quantifier);
    * a term is an IRI, a blank node, or a literal that is plain, typed or language-tagged
      (rdflib refuses a literal with both a language and a datatype, so the sum type is exact);
    * a SELECT result is a list of variable names and rows *aligned* to it (`none` = unbound): the
      observation `[row.get(v) for v in result.vars]` of a binding dict; ASK is a boolean;
    * JSON and XML are trees here (`Json`, `Xml`) and CSV a field table; the character level of the strings in them
      (`json` string escaping / scanning, `csv` quoting / reader state machine, `xml.sax.saxutils` escaping / XML 1.0
      reader) is modelled in `Text.lean` (round g).  `wireText` below is the earlier, coarser model of the two XML
      facts that matter to the property: end-of-line normalisation and the XML 1.0 `Char` range.
    * `Literal(lex, datatype=…)` re-normalises lexical forms of known datatypes (C09); the model's
      `mkLiteral` does not: the terms of the quantifier are the fixed points of that normalisation
      (every term rdflib hands out under the default `NORMALIZE_LITERALS`).
-/
namespace RV.C16

abbrev Str := List Char

inductive Term where
  | iri (s : Str)
  | bnode (s : Str)
  | plain (lex : Str)
  | typed (lex dt : Str)
  | lang (lex tag : Str)
  deriving DecidableEq, Repr

abbrev Cell := Option Term
abbrev Row := List Cell

inductive Result where
  | select (vars : List Str) (rows : List Row)
  | ask (b : Bool)
  deriving DecidableEq, Repr

/-- exceptions as values -/
inductive Err where
  | parse        -- pyparsing ParseException / expat ParseError
  | key          -- KeyError
  | type         -- TypeError
  | value        -- ValueError
  | notImpl      -- NotImplementedError
  | result       -- ResultException
  | index        -- IndexError
  | attr         -- AttributeError
  | unmodelled   -- input outside what the model covers (never produced by a writer)
  deriving DecidableEq, Repr

/-! ### Characters and small grammars shared by the readers -/

def inR (c : Char) (lo hi : Nat) : Bool := lo ≤ c.toNat && c.toNat ≤ hi

def isDigit (c : Char) : Bool := inR c 0x30 0x39
def isAlpha (c : Char) : Bool := inR c 0x41 0x5A || inR c 0x61 0x7A
def isAlnum (c : Char) : Bool := isAlpha c || isDigit c

/-- SPARQL [164] PN_CHARS_BASE -/
def pnCharsBase (c : Char) : Bool :=
  isAlpha c || inR c 0xC0 0xD6 || inR c 0xD8 0xF6 || inR c 0xF8 0x2FF || inR c 0x370 0x37D
  || inR c 0x37F 0x1FFF || inR c 0x200C 0x200D || inR c 0x2070 0x218F || inR c 0x2C00 0x2FEF
  || inR c 0x3001 0xD7FF || inR c 0xF900 0xFDCF || inR c 0xFDF0 0xFFFD || inR c 0x10000 0xEFFFF

/-- [165] PN_CHARS_U -/
def pnCharsU (c : Char) : Bool := c == '_' || pnCharsBase c

/-- the tail class of [166] VARNAME -/
def varTail (c : Char) : Bool :=
  pnCharsU c || isDigit c || c.toNat == 0xB7 || inR c 0x300 0x36F || inR c 0x203F 0x2040

/-- [167] PN_CHARS -/
def pnChars (c : Char) : Bool := c == '-' || varTail c

/-- `str.split(sep)` for a one-character separator: always at least one piece -/
def splitOn (sep : Char) : Str → List Str
  | [] => [[]]
  | c :: cs =>
    if c = sep then [] :: splitOn sep cs
    else match splitOn sep cs with
      | [] => [[c]]            -- unreachable
      | p :: ps => (c :: p) :: ps

def joinWith (sep : Char) : List Str → Str
  | [] => []
  | [p] => p
  | p :: q :: ps => p ++ sep :: joinWith sep (q :: ps)

def nonemptyAll (p : Char → Bool) (s : Str) : Bool := !s.isEmpty && s.all p

/-- `^[a-zA-Z]+(?:-[a-zA-Z0-9]+)*$` : `term._lang_tag_regex` and the body of [145] LANGTAG -/
def validLang (s : Str) : Bool :=
  match splitOn '-' s with
  | [] => false
  | h :: t => nonemptyAll isAlpha h && t.all (nonemptyAll isAlnum)

/-- [166] VARNAME -/
def validVarName : Str → Bool
  | [] => false
  | c :: cs => (pnCharsU c || isDigit c) && cs.all varTail

def lastOk (p : Char → Bool) : Str → Bool
  | [] => true
  | [c] => p c
  | _ :: c :: cs => lastOk p (c :: cs)

/-- the label of [142] BLANK_NODE_LABEL: `( PN_CHARS_U | [0-9] ) ((PN_CHARS|'.')* PN_CHARS)?` -/
def validLabel : Str → Bool
  | [] => false
  | c :: cs => (pnCharsU c || isDigit c) && cs.all (fun x => pnChars x || x == '.') && lastOk pnChars cs

/-- the body of [139] IRIREF: `([^<>"{}|^`\]-[#x00-#x20])*` -/
def iriChar (c : Char) : Bool :=
  !(c.toNat ≤ 0x20 || c == '<' || c == '>' || c == '"' || c == '{' || c == '}' || c == '|'
    || c == '^' || c == '`' || c == '\\')

/-- `rdflib.term.Literal.__new__` as far as it concerns identity (see the header on normalisation) -/
def mkLiteral (lex : Str) (dt : Option Str) (lang : Option Str) : Except Err Term :=
  let lang := match lang with
    | some [] => none            -- `if lang == "": lang = None`
    | l => l
  match lang, dt with
  | some _, some _ => .error .type
  | some l, none => if validLang l then .ok (.lang lex l) else .error .value
  | none, some d => .ok (.typed lex d)
  | none, none => .ok (.plain lex)

/-- `dict.get` on an association list -/
def alookup {β : Type} (k : Str) : List (Str × β) → Option β
  | [] => none
  | (k', v) :: r => if k' = k then some v else alookup k r

/-- the observation `[row.get(v) for v in vars]` of a binding dict -/
def alignDict (vars : List Str) (d : List (Str × Term)) : Row := vars.map (fun v => alookup v d)

/-- a binding dict of an aligned row: bound variables only -/
def bindingPairs : List Str → Row → List (Str × Term)
  | v :: vs, some t :: cs => (v, t) :: bindingPairs vs cs
  | _ :: vs, none :: cs => bindingPairs vs cs
  | _, _ => []

/-! ### JSON (tree level) -/

inductive Json where
  | null
  | bool (b : Bool)
  | num                                  -- any number: never written, not interpreted
  | str (s : Str)
  | arr (xs : List Json)
  | obj (kvs : List (Str × Json))

def kType : Str := "type".toList
def kValue : Str := "value".toList
def kUri : Str := "uri".toList
def kLiteral : Str := "literal".toList
def kTypedLiteral : Str := "typed-literal".toList
def kBnode : Str := "bnode".toList
def kDatatype : Str := "datatype".toList
def kXmlLang : Str := "xml:lang".toList
def kHead : Str := "head".toList
def kVars : Str := "vars".toList
def kBoolean : Str := "boolean".toList
def kResults : Str := "results".toList
def kBindings : Str := "bindings".toList

/-- `termToJSON` -/
def termToJson : Term → Json
  | .iri s => .obj [(kType, .str kUri), (kValue, .str s)]
  | .plain s => .obj [(kType, .str kLiteral), (kValue, .str s)]
  | .typed s d => .obj [(kType, .str kLiteral), (kValue, .str s), (kDatatype, .str d)]
  | .lang s l => .obj [(kType, .str kLiteral), (kValue, .str s), (kXmlLang, .str l)]
  | .bnode s => .obj [(kType, .str kBnode), (kValue, .str s)]

/-- `_bindingToJSON` (unbound variables are not keys of the binding dict) -/
def bindingToJson : List Str → Row → List (Str × Json)
  | v :: vs, some t :: cs => (v, termToJson t) :: bindingToJson vs cs
  | _ :: vs, none :: cs => bindingToJson vs cs
  | _, _ => []

/-- `JSONResultSerializer.serialize`, up to `json.dumps` -/
def toJson : Result → Json
  | .ask b => .obj [(kHead, .obj []), (kBoolean, .bool b)]
  | .select vars rows =>
    .obj [(kResults, .obj [(kBindings, .arr (rows.map (fun r => .obj (bindingToJson vars r))))]),
          (kHead, .obj [(kVars, .arr (vars.map .str))])]

/-- a JSON value used where rdflib expects a string (`URIRef(x)`, `Literal(x)`, `Variable(x)`) -/
def jStr : Json → Except Err Str
  | .str s => .ok s
  | _ => .error .unmodelled

/-- `d.get(key)` used as an optional string -/
def jOptStr : Option Json → Except Err (Option Str)
  | none => .ok none
  | some .null => .ok none
  | some (.str s) => .ok (some s)
  | some _ => .error .unmodelled

/-- `parseJsonTerm` -/
def parseJsonTerm : Json → Except Err Term
  | .obj d =>
    match alookup kType d with
    | none => .error .key
    | some (.str t) =>
      if t = kUri then
        match alookup kValue d with
        | none => .error .key
        | some v => (jStr v).map .iri
      else if t = kLiteral then
        match alookup kValue d with
        | none => .error .key
        | some v =>
          match jStr v, jOptStr (alookup kDatatype d), jOptStr (alookup kXmlLang d) with
          | .ok s, .ok dt, .ok lg => mkLiteral s dt lg
          | .error e, _, _ => .error e
          | _, .error e, _ => .error e
          | _, _, .error e => .error e
      else if t = kTypedLiteral then
        match alookup kValue d, alookup kDatatype d with
        | some v, some dt =>
          match jStr v, jStr dt with
          | .ok s, .ok d' => mkLiteral s (some d') none
          | .error e, _ => .error e
          | _, .error e => .error e
        | _, _ => .error .key
      else if t = kBnode then
        match alookup kValue d with
        | none => .error .key
        | some v => (jStr v).map .bnode
      else .error .notImpl
    | some _ => .error .notImpl
  | _ => .error .type

/-- one row of `JSONResult._get_bindings` -/
def parseJsonBinding : List (Str × Json) → Except Err (List (Str × Term))
  | [] => .ok []
  | (k, v) :: r =>
    match parseJsonTerm v with
    | .error e => .error e
    | .ok t =>
      match parseJsonBinding r with
      | .error e => .error e
      | .ok d => .ok ((k, t) :: d)

def parseJsonRows : List Json → Except Err (List (List (Str × Term)))
  | [] => .ok []
  | .obj kvs :: r =>
    match parseJsonBinding kvs with
    | .error e => .error e
    | .ok d =>
      match parseJsonRows r with
      | .error e => .error e
      | .ok ds => .ok (d :: ds)
  | _ :: _ => .error .attr

def jStrs : List Json → Except Err (List Str)
  | [] => .ok []
  | j :: r =>
    match jStr j with
    | .error e => .error e
    | .ok s =>
      match jStrs r with
      | .error e => .error e
      | .ok ss => .ok (s :: ss)

/-- `JSONResult.__init__`, observed as an aligned table -/
def ofJson : Json → Except Err Result
  | .obj top =>
    match alookup kBoolean top with
    | some (.bool x) => .ok (.ask x)
    | some _ => .error .unmodelled
    | none =>
      match alookup kResults top with
      | none => .error .result
      | some (.obj rd) =>
        match alookup kBindings rd with
        | some (.arr rows) =>
          match parseJsonRows rows with
          | .error e => .error e
          | .ok ds =>
            match alookup kHead top with
            | some (.obj hd) =>
              match alookup kVars hd with
              | some (.arr vs) =>
                match jStrs vs with
                | .error e => .error e
                | .ok vars => .ok (.select vars (ds.map (alignDict vars)))
              | some _ => .error .unmodelled
              | none => .error .key
            | some _ => .error .type
            | none => .error .key
        | some _ => .error .unmodelled
        | none => .error .key
      | some _ => .error .type
  | _ => .error .unmodelled

/-! ### XML (tree level; tags of the SPARQL results namespace are written by their local name) -/

inductive Xml where
  | node (tag : Str) (attrs : List (Str × Str)) (text : Str) (kids : List Xml)

def Xml.tag : Xml → Str | .node t _ _ _ => t
def Xml.attrs : Xml → List (Str × Str) | .node _ a _ _ => a
def Xml.text : Xml → Str | .node _ _ x _ => x
def Xml.kids : Xml → List Xml | .node _ _ _ k => k

def tSparql : Str := "sparql".toList
def tHead : Str := "head".toList
def tVariable : Str := "variable".toList
def tBoolean : Str := "boolean".toList
def tResults : Str := "results".toList
def tResult : Str := "result".toList
def tBinding : Str := "binding".toList
def tUri : Str := "uri".toList
def tBnode : Str := "bnode".toList
def tLiteral : Str := "literal".toList
def aName : Str := "name".toList
def aDatatype : Str := "datatype".toList
def aXmlLang : Str := "xml:lang".toList
def sTrue : Str := "true".toList
def sFalse : Str := "false".toList

/-- the term element of `SPARQLXMLWriter.write_binding` (`val.language` / `val.datatype` are tested for
    truthiness: a language is never empty; an empty datatype IRI is not written) -/
def termToXml : Term → Xml
  | .iri s => .node tUri [] s []
  | .bnode s => .node tBnode [] s []
  | .plain s => .node tLiteral [] s []
  | .typed s d => if d = [] then .node tLiteral [] s [] else .node tLiteral [(aDatatype, d)] s []
  | .lang s l => .node tLiteral [(aXmlLang, l)] s []

def bindingToXml : List Str → Row → List Xml
  | v :: vs, some t :: cs => .node tBinding [(aName, v)] [] [termToXml t] :: bindingToXml vs cs
  | _ :: vs, none :: cs => bindingToXml vs cs
  | _, _ => []

def headXml (vars : List Str) : Xml :=
  .node tHead [] [] (vars.map (fun v => .node tVariable [(aName, v)] [] []))

/-- `XMLResultSerializer.serialize` as the element tree it describes -/
def toXml : Result → Xml
  | .ask b => .node tSparql [] [] [headXml [], .node tBoolean [] (if b then sTrue else sFalse) []]
  | .select vars rows =>
    .node tSparql [] [] [headXml vars,
      .node tResults [] [] (rows.map (fun r => .node tResult [] [] (bindingToXml vars r)))]

/-- `parseTerm` (ElementTree gives `None` for an empty text) -/
def truthy : Option Str → Option Str
  | some [] => none
  | o => o

def parseXmlTerm (e : Xml) : Except Err Term :=
  if e.tag = tLiteral then
    match truthy (alookup aDatatype e.attrs) with
    | some d => mkLiteral e.text (some d) none
    | none =>
      match truthy (alookup aXmlLang e.attrs) with
      | some l => mkLiteral e.text none (some l)
      | none => mkLiteral e.text none none
  else if e.tag = tUri then
    if e.text = [] then .error .type else .ok (.iri e.text)       -- `URIRef(None)`
  else if e.tag = tBnode then
    if e.text = [] then .error .unmodelled else .ok (.bnode e.text) -- `BNode(None)` is a fresh node
  else .error .type

/-- the bindings of one `<result>` -/
def parseXmlBindings : List Xml → Except Err (List (Str × Term))
  | [] => .ok []
  | b :: r =>
    if b.tag = tBinding then
      match alookup aName b.attrs, b.kids with
      | _, [] => .error .index
      | none, _ :: _ => .error .unmodelled      -- `Variable(None)`
      | some v, k :: _ =>
        match parseXmlTerm k with
        | .error e => .error e
        | .ok t =>
          match parseXmlBindings r with
          | .error e => .error e
          | .ok d => .ok ((v, t) :: d)
    else parseXmlBindings r

/-- (two `<binding>`s for one variable in one `<result>` are not modelled: Python's dict keeps the
    later one; no writer produces that) -/
def parseXmlResults : List Xml → Except Err (List (List (Str × Term)))
  | [] => .ok []
  | x :: r =>
    if x.tag = tResult then
      match parseXmlBindings x.kids with
      | .error e => .error e
      | .ok d =>
        match parseXmlResults r with
        | .error e => .error e
        | .ok ds => .ok (d :: ds)
    else parseXmlResults r

def findTag (t : Str) : List Xml → Option Xml
  | [] => none
  | x :: r => if x.tag = t then some x else findTag t r

/-- `findall("./head/variable")` -/
def headVars : List Xml → Except Err (List Str)
  | [] => .ok []
  | x :: r =>
    if x.tag = tVariable then
      match alookup aName x.attrs with
      | none => .error .unmodelled
      | some v =>
        match headVars r with
        | .error e => .error e
        | .ok vs => .ok (v :: vs)
    else headVars r

def allHeadVars : List Xml → Except Err (List Str)
  | [] => .ok []
  | x :: r =>
    if x.tag = tHead then
      match headVars x.kids with
      | .error e => .error e
      | .ok vs =>
        match allHeadVars r with
        | .error e => .error e
        | .ok ws => .ok (vs ++ ws)
    else allHeadVars r

/-- Python `str.strip()`/`lower()` on the ASCII text of `<boolean>` -/
def pySpace (c : Char) : Bool :=
  inR c 0x09 0x0D || inR c 0x1C 0x20 || c.toNat == 0x85 || c.toNat == 0xA0 || c.toNat == 0x1680
  || inR c 0x2000 0x200A || c.toNat == 0x2028 || c.toNat == 0x2029 || c.toNat == 0x202F
  || c.toNat == 0x205F || c.toNat == 0x3000

/-- `str.rstrip()` -/
def stripEnd : Str → Str
  | [] => []
  | c :: cs =>
    match stripEnd cs with
    | [] => if pySpace c then [] else [c]
    | r => c :: r

/-- `str.strip()` -/
def pyStrip (s : Str) : Str := stripEnd (s.dropWhile pySpace)

def asciiLower (c : Char) : Char := if inR c 0x41 0x5A then Char.ofNat (c.toNat + 32) else c

/-- `XMLResult.__init__`, observed as an aligned table -/
def ofXml (root : Xml) : Except Err Result :=
  match findTag tBoolean root.kids, findTag tResults root.kids with
  | some b, _ =>
    if b.text = [] then .error .attr
    else .ok (.ask (pyStrip (b.text.map asciiLower) == sTrue))
  | none, some res =>
    match parseXmlResults res.kids with
    | .error e => .error e
    | .ok ds =>
      match allHeadVars root.kids with
      | .error e => .error e
      | .ok vars => .ok (.select vars (ds.map (alignDict vars)))
  | none, none => .error .result

/-! #### the XML text level, as far as the property depends on it -/

/-- XML 1.0 production [2] Char -/
def xmlChar (c : Char) : Bool :=
  c == '\t' || c == '\n' || c == '\r' || inR c 0x20 0xD7FF || inR c 0xE000 0xFFFD || inR c 0x10000 0x10FFFF

/-- what is written for one character of character data -/
inductive Piece where
  | raw (c : Char)      -- the character itself (`&`, `<`, `>` as entities, which a parser undoes)
  | ref (c : Char)      -- a numeric character reference
  deriving DecidableEq, Repr

/-- `SPARQLXMLWriter._characters`: a carriage return is written as `&#13;` -/
def writeChars : Str → List Piece
  | [] => []
  | c :: cs => (if c = '\r' then .ref c else .raw c) :: writeChars cs

/-- the writer before the fix: `XMLGenerator.characters` only -/
def writeCharsOld (s : Str) : List Piece := s.map .raw

/-- an XML 1.0 parser on character data: every character must be a `Char`; a literal CR LF or CR
    is delivered as LF (XML 1.0 §2.11; `skipLF` = the previous character was a literal CR);
    references are delivered as they are -/
def readPieces (skipLF : Bool) : List Piece → Option Str
  | [] => some []
  | .ref c :: r => if xmlChar c then (readPieces false r).map (c :: ·) else none
  | .raw c :: r =>
    if !xmlChar c then none
    else if c = '\n' && skipLF then readPieces false r
    else if c = '\r' then (readPieces true r).map ('\n' :: ·)
    else (readPieces false r).map (c :: ·)

/-- character data through writer and parser -/
def wireText (s : Str) : Option Str := readPieces false (writeChars s)
def wireTextOld (s : Str) : Option Str := readPieces false (writeCharsOld s)

/-- attribute values: `quoteattr` writes tab, LF and CR as references; the `Char` range remains -/
def wireAttr (s : Str) : Option Str := if s.all xmlChar then some s else none

def wireTerm : Term → Option Term
  | .iri s => (wireText s).map .iri
  | .bnode s => (wireText s).map .bnode
  | .plain s => (wireText s).map .plain
  | .typed s d =>
    match wireText s, wireAttr d with
    | some s', some d' => some (.typed s' d')
    | _, _ => none
  | .lang s l =>
    match wireText s, wireAttr l with
    | some s', some l' => some (.lang s' l')
    | _, _ => none

def wireRow : Row → Option Row
  | [] => some []
  | none :: r => (wireRow r).map (none :: ·)
  | some t :: r =>
    match wireTerm t, wireRow r with
    | some t', some r' => some (some t' :: r')
    | _, _ => none

def wireRows : List Row → Option (List Row)
  | [] => some []
  | r :: rs =>
    match wireRow r, wireRows rs with
    | some r', some rs' => some (r' :: rs')
    | _, _ => none

def wireStrs : List Str → Option (List Str)
  | [] => some []
  | s :: r =>
    match wireAttr s, wireStrs r with
    | some s', some r' => some (s' :: r')
    | _, _ => none

/-- every string of the result as an XML parser hands it back; `none` = the document is not well-formed -/
def wireResult : Result → Option Result
  | .ask b => some (.ask b)
  | .select vars rows =>
    match wireStrs vars, wireRows rows with
    | some v, some r => some (.select v r)
    | _, _ => none

/-- `Result.parse(BytesIO(r.serialize(format="xml")), format="xml")` -/
def xmlRoundTrip (r : Result) : Except Err Result :=
  match wireResult r with
  | none => .error .parse
  | some r' => ofXml (toXml r')

/-! ### TSV reader -/

def xsd (s : String) : Str := "http://www.w3.org/2001/XMLSchema#".toList ++ s.toList
def xsdInteger : Str := xsd "integer"
def xsdDecimal : Str := xsd "decimal"
def xsdDouble : Str := xsd "double"
def xsdBoolean : Str := xsd "boolean"

/-- `[0-9]+` -/
def isInteger (u : Str) : Bool := nonemptyAll isDigit u

/-- `[0-9]*\.[0-9]+` -/
def isDecimal (u : Str) : Bool :=
  match splitOn '.' u with
  | [a, b] => a.all isDigit && nonemptyAll isDigit b
  | _ => false

def isExpChar (c : Char) : Bool := c == 'e' || c == 'E'

/-- `[eE][+-]?[0-9]+` -/
def isExponent : Str → Bool
  | [] => false
  | c :: r =>
    isExpChar c &&
      match r with
      | [] => false
      | s :: r' => if s == '+' || s == '-' then nonemptyAll isDigit r' else nonemptyAll isDigit r

/-- `[0-9]+\.[0-9]*` | `\.[0-9]+` | `[0-9]+` -/
def isMantissa (m : Str) : Bool :=
  match splitOn '.' m with
  | [a] => nonemptyAll isDigit a
  | [a, b] => (nonemptyAll isDigit a && b.all isDigit) || (a.isEmpty && nonemptyAll isDigit b)
  | _ => false

/-- `[0-9]+\.[0-9]*EXP | \.[0-9]+EXP | [0-9]+EXP` -/
def isDouble (u : Str) : Bool :=
  isMantissa (u.takeWhile (fun c => !isExpChar c)) && isExponent (u.dropWhile (fun c => !isExpChar c))

/-- `NumericLiteralUnsigned = DOUBLE | DECIMAL | INTEGER` (first match) on a whole cell -/
def classifyUnsigned (u : Str) : Option Str :=
  if isDouble u then some xsdDouble
  else if isDecimal u then some xsdDecimal
  else if isInteger u then some xsdInteger
  else none

/-- `NumericLiteral` with the parse actions of `parser.py`: `+` is kept for integers only and `-`
    negates the value (`neg`), which on a normalised lexical form puts the sign back in front -/
def readNumeric (cell : Str) : Option Term :=
  match cell with
  | [] => none
  | c :: u =>
    if c = '+' then
      match classifyUnsigned u with
      | some d => some (.typed (if d = xsdInteger then cell else u) d)
      | none => none
    else if c = '-' then (classifyUnsigned u).map (fun d => .typed cell d)
    else (classifyUnsigned cell).map (fun d => .typed cell d)

/-- ECHAR of `tsvresults._ESCAPE_re`, decoded by `compat._string_escape_map` -/
def unescChar (e : Char) : Option Char :=
  if e = '"' then some '"'
  else if e = '\'' then some '\''
  else if e = 'n' then some '\n'
  else if e = 't' then some '\t'
  else if e = 'b' then some '\x08'
  else if e = 'r' then some '\r'
  else if e = 'f' then some '\x0c'
  else if e = '\\' then some '\\'
  else none

def hexVal (c : Char) : Option Nat :=
  if isDigit c then some (c.toNat - 48)
  else if inR c 65 70 then some (c.toNat - 55)
  else if inR c 97 102 then some (c.toNat - 87)
  else none

/-- `int(digits, 16)` on `[0-9A-Fa-f]*` -/
def hexNum (acc : Nat) : Str → Option Nat
  | [] => some acc
  | c :: r =>
    match hexVal c with
    | some d => hexNum (acc * 16 + d) r
    | none => none

/-- `chr(n)`; a code point that is not a Unicode scalar value is outside the model -/
def chrOf (n : Nat) : Option Char := if n.isValidChar then some (Char.ofNat n) else none

/-- the body of a quoted string up to its closing quote (`STRING_LITERAL1/2` of tsvresults.py, then
    `decodeUnicodeEscape`): decoded value and what follows -/
def scanStr (q : Char) : Str → Option (Str × Str)
  | [] => none
  | c :: r =>
    if c = q then some ([], r)
    else if c = '\\' then
      match r with
      | [] => none
      | e :: r' =>
        if e = 'u' then
          match r' with
          | a :: b :: c :: d :: r'' =>
            match (hexNum 0 [a, b, c, d]).bind chrOf, scanStr q r'' with
            | some x, some (s, rest) => some (x :: s, rest)
            | _, _ => none
          | _ => none
        else if e = 'U' then
          match r' with
          | a :: b :: c :: d :: a' :: b' :: c' :: d' :: r'' =>
            match (hexNum 0 [a, b, c, d, a', b', c', d']).bind chrOf, scanStr q r'' with
            | some x, some (s, rest) => some (x :: s, rest)
            | _, _ => none
          | _ => none
        else
          match unescChar e, scanStr q r' with
          | some d, some (s, rest) => some (d :: s, rest)
          | _, _ => none
    else if c = '\n' || c = '\r' then none
    else
      match scanStr q r with
      | some (s, rest) => some (c :: s, rest)
      | none => none

/-- IRIREF after its `<`: the IRI and what follows the `>` -/
def scanIri : Str → Option (Str × Str)
  | [] => none
  | c :: r =>
    if c = '>' then some ([], r)
    else if iriChar c then
      match scanIri r with
      | some (s, rest) => some (c :: s, rest)
      | none => none
    else none

/-- RDFLITERAL after the opening quote `q` -/
def readLiteral (q : Char) (r : Str) : Except Err Term :=
  match scanStr q r with
  | none => .error .parse
  | some (s, rest) =>
    match rest with
    | [] => mkLiteral s none none
    | '@' :: tag => if validLang tag then mkLiteral s none (some tag) else .error .parse
    | '^' :: '^' :: '<' :: r' =>
      match scanIri r' with
      | some (d, []) => mkLiteral s (some d) none
      | _ => .error .parse
    | _ => .error .parse

/-- `NumericLiteral | BooleanLiteral` on a whole cell -/
def readBare (cell : Str) : Except Err Cell :=
  if cell = sTrue then .ok (some (.typed sTrue xsdBoolean))
  else if cell = sFalse then .ok (some (.typed sFalse xsdBoolean))
  else
    match readNumeric cell with
    | some t => .ok (some t)
    | none => .error .parse

/-- `EMPTY | TERM` on one tab-separated cell, then `convertTerm`
    (`TERM = RDFLITERAL | IRIREF | BLANK_NODE_LABEL | NumericLiteral | BooleanLiteral`: the first
    character decides which alternative can match) -/
def readCell (cell : Str) : Except Err Cell :=
  match cell with
  | [] => .ok none
  | c :: r =>
    if c = '"' ∨ c = '\'' then (readLiteral c r).map some
    else if c = '<' then
      match scanIri r with
      | some (i, []) => .ok (some (.iri i))
      | _ => .error .parse
    else if c = '_' then
      match r with
      | ':' :: l => if validLabel l then .ok (some (.bnode l)) else .error .parse
      | _ => .error .parse
    else readBare cell

def readCells : List Str → Except Err Row
  | [] => .ok []
  | c :: r =>
    match readCell c with
    | .error e => .error e
    | .ok x =>
      match readCells r with
      | .error e => .error e
      | .ok xs => .ok (x :: xs)

/-- `zip(r.vars, row)` observed per variable: missing cells are unbound, surplus cells are ignored -/
def alignCells : Nat → Row → Row
  | 0, _ => []
  | n + 1, [] => none :: alignCells n []
  | n + 1, c :: cs => c :: alignCells n cs

/-- `Var` of the header: `?name` or `$name` -/
def readVar : Str → Except Err Str
  | c :: name => if (c = '?' || c = '$') && validVarName name then .ok name else .error .parse
  | [] => .error .parse

def readVars : List Str → Except Err (List Str)
  | [] => .ok []
  | c :: r =>
    match readVar c with
    | .error e => .error e
    | .ok v =>
      match readVars r with
      | .error e => .error e
      | .ok vs => .ok (v :: vs)

/-- the data lines (`keepBlank` = a blank line is a row: results with at most one variable) -/
def readRows (n : Nat) : List Str → Except Err (List Row)
  | [] => .ok []
  | l :: ls =>
    if l = [] ∧ 1 < n then readRows n ls
    else
      match readCells (splitOn '\t' l) with
      | .error e => .error e
      | .ok cells =>
        match readRows n ls with
        | .error e => .error e
        | .ok rows => .ok (alignCells n cells :: rows)

/-- the lines `readline()` delivers: text after the last line feed is a line only if non-empty -/
def dropLastEmpty : List Str → List Str
  | [] => []
  | [l] => if l = [] then [] else [l]
  | l :: m :: r => l :: dropLastEmpty (m :: r)

def readLines (text : Str) : List Str := dropLastEmpty (splitOn '\n' text)

/-- `TSVResultParser.parse` -/
def readTsv (text : Str) : Except Err Result :=
  match readLines text with
  | [] => .error .parse                         -- no header line at all
  | h :: ls =>
    -- `header == "\n"`: no variables.  (`readline` keeps the "\n"; a last line without it is non-empty.)
    let varsE : Except Err (List Str) :=
      if h = [] then .ok [] else readVars (splitOn '\t' (pyStrip h))
    match varsE with
    | .error e => .error e
    | .ok vars =>
      match readRows vars.length ls with
      | .error e => .error e
      | .ok rows => .ok (.select vars rows)

/-- the reader before `fix: TSV result reader keeps rows in which no variable is bound`
    (kept to document the defect; not used by the model) -/
def readRowsOld (n : Nat) : List Str → Except Err (List Row)
  | [] => .ok []
  | l :: ls =>
    if l = [] then readRowsOld n ls
    else
      match readCells (splitOn '\t' l) with
      | .error e => .error e
      | .ok cells =>
        match readRowsOld n ls with
        | .error e => .error e
        | .ok rows =>
          if (alignCells n cells).all Option.isNone then .ok rows else .ok (alignCells n cells :: rows)

def readTsvOld (text : Str) : Except Err Result :=
  match readLines text with
  | [] => .error .parse
  | h :: ls =>
    match readVars (splitOn '\t' (pyStrip h)) with
    | .error e => .error e
    | .ok vars =>
      match readRowsOld vars.length ls with
      | .error e => .error e
      | .ok rows => .ok (.select vars rows)

/-! ### CSV (field-table level; Python's `csv` writer/reader pair is an external) -/

/-- `str(term)` -/
def strOf : Term → Str
  | .iri s => s
  | .bnode s => s
  | .plain s => s
  | .typed s _ => s
  | .lang s _ => s

/-- `CSVResultSerializer.serializeTerm` -/
def csvField : Cell → Str
  | none => []
  | some (.bnode l) => '_' :: ':' :: l
  | some t => strOf t

/-- `CSVResultSerializer.serialize`: header row, then one row per solution -/
def toCsv : Result → Except Err (List (List Str))
  | .ask _ => .error .unmodelled      -- "CSVSerializer can only serialize select query results"
  | .select vars rows => .ok (vars :: rows.map (fun r => (alignCells vars.length r).map csvField))

def sHttp : Str := "http://".toList
def sHttps : Str := "https://".toList

def startsWith : Str → Str → Bool
  | [], _ => true
  | _ :: _, [] => false
  | p :: ps, c :: cs => p == c && startsWith ps cs

/-- `CSVResultParser.convertTerm` -/
def csvConvert (t : Str) : Cell :=
  match t with
  | [] => none
  | '_' :: ':' :: _ => some (.bnode t)          -- the whole field, prefix included, becomes the label
  | _ => if startsWith sHttp t || startsWith sHttps t then some (.iri t) else some (.plain t)

/-- `CSVResultParser.parse` on the field table -/
def ofCsv : List (List Str) → Except Err Result
  | [] => .error .unmodelled          -- `next(reader)` on an empty document: StopIteration
  | vars :: rows => .ok (.select vars (rows.map (fun r => alignCells vars.length (r.map csvConvert))))

def csvRoundTrip (r : Result) : Except Err Result :=
  match toCsv r with
  | .error e => .error e
  | .ok t => ofCsv t

/-! ### The result container: a lazily evaluated SELECT result (`rdflib/query.py` `Result`)

`Result._bindings` (rows already materialised) and `Result._genbindings` (the evaluator's generator, `none` once
exhausted or when the result was built from a list).  Histories are sequences of
  * `take k` : a fresh `iter(result)` advanced `k` times (`next(it)` k times, or a `for` loop left by `break`
               after `k` rows) and then dropped;
  * `force`  : anything that reads `Result.bindings` — `len(r)`, `bool(r)`, `r.bindings`, `r.serialize(...)`.
`Result.__iter__` appends every row it pulls from the generator to `_bindings` and hands out those in which
something is bound (after `fix: Result.__iter__ keeps rows in which nothing is bound …`). -/

structure Lazy where
  mat : List Row
  gen : Option (List Row)
  deriving DecidableEq, Repr

inductive HOp where
  | take (k : Nat)
  | force
  deriving DecidableEq, Repr

def rowBound (r : Row) : Bool := r.any Option.isSome

/-- `k` calls of `next` on a fresh iterator while the generator is live: rows pulled are appended to
    `mat`; all-unbound rows are not handed out (and do not count); running dry clears `_genbindings` -/
def pull : Nat → List Row → List Row → List Row → Lazy × List Row
  | 0, g, mat, out => (⟨mat, some g⟩, out)
  | _ + 1, [], mat, out => (⟨mat, none⟩, out)
  | k + 1, b :: g, mat, out =>
    if rowBound b then pull k g (mat ++ [b]) (out ++ [b]) else pull (k + 1) g (mat ++ [b]) out

/-- the pre-fix `__iter__`: `if b: self._bindings.append(b); yield …` (kept to document the defect) -/
def pullOld : Nat → List Row → List Row → List Row → Lazy × List Row
  | 0, g, mat, out => (⟨mat, some g⟩, out)
  | _ + 1, [], mat, out => (⟨mat, none⟩, out)
  | k + 1, b :: g, mat, out =>
    if rowBound b then pullOld k g (mat ++ [b]) (out ++ [b]) else pullOld (k + 1) g mat out

/-- `Result.bindings` (getter): `self._bindings += list(self._genbindings); self._genbindings = None` -/
def Lazy.force (s : Lazy) : Lazy :=
  match s.gen with
  | some g => ⟨s.mat ++ g, none⟩
  | none => s

/-- one step of a history: new state and what the caller saw (rows handed out / the rows counted) -/
def Lazy.step (s : Lazy) : HOp → Lazy × List Row
  | .take k =>
    match s.gen with
    | some g => pull k g s.mat []
    | none => (s, (s.mat.filter rowBound).take k)
  | .force => (s.force, s.force.mat)

def Lazy.run (s : Lazy) : List HOp → Lazy
  | [] => s
  | o :: os => ((s.step o).1).run os

/-! ### Several live iterators over one lazily evaluated result

`Result.__iter__` is a generator function: its body starts at the first `next()`.  If `self._genbindings`
is not `None` at that moment the iterator runs `for b in self._genbindings` over the ONE shared evaluator
generator (`pending` = what that generator has not produced yet) — the loop keeps its reference even after the
attribute has been cleared; otherwise it runs `for b in self._bindings` over the ONE shared list (`mat`; a Python
list iterator is an index into the live list).  `attr` = "`self._genbindings` is not `None`".
`Result.bindings` (read by `len`, `bool`, every serializer — the txt serializer then iterates, in list mode)
extends `_bindings` in place with what the generator still holds and clears the attribute. -/

inductive ItSt where
  | fresh                 -- created by `iter(result)`, body not started
  | gen                   -- suspended inside `for b in self._genbindings`
  | list (idx : Nat)      -- suspended inside `for b in self._bindings`, next index to read
  | done
  deriving DecidableEq, Repr

structure Multi where
  mat : List Row
  pending : List Row
  attr : Bool
  its : List ItSt
  deriving Repr

inductive MOp where
  | openIt                -- `iter(result)`: a new iterator, numbered in order of creation
  | next (i : Nat)        -- `next()` on iterator `i`
  | force                 -- `len(r)`, `bool(r)`, `r.bindings`, `r.serialize(format=…)`
  deriving DecidableEq, Repr

inductive MOut where
  | opened
  | row (r : Row) (fromGen : Bool)   -- a row handed out; `fromGen` = pulled from the evaluator's generator just now
  | stop                             -- StopIteration
  | size (n : Nat)                   -- `len(result.bindings)`
  | bad                              -- no such iterator
  deriving DecidableEq, Repr

/-- the `for b in self._genbindings` loop until its next `yield`: every row pulled is appended to `_bindings`,
    rows in which nothing is bound are passed over; `none` = the generator ran dry -/
def genStep : List Row → List Row → List Row × List Row × Option Row
  | [], mat => (mat, [], none)
  | b :: g, mat => if rowBound b then (mat ++ [b], g, some b) else genStep g (mat ++ [b])

/-- the `for b in self._bindings` loop until its next `yield`, on the part of the list not yet read -/
def listStep : List Row → Nat → Option (Row × Nat)
  | [], _ => none
  | b :: r, idx => if rowBound b then some (b, idx + 1) else listStep r (idx + 1)

def setIt : List ItSt → Nat → ItSt → List ItSt
  | [], _, _ => []
  | _ :: r, 0, x => x :: r
  | y :: r, i + 1, x => y :: setIt r i x

def Multi.doGen (s : Multi) (i : Nat) : Multi × MOut :=
  match genStep s.pending s.mat with
  | (mat', p', some r) => ({ s with mat := mat', pending := p', its := setIt s.its i .gen }, .row r true)
  | (mat', _, none) => ({ s with mat := mat', pending := [], attr := false, its := setIt s.its i .done }, .stop)

def Multi.doList (s : Multi) (i idx : Nat) : Multi × MOut :=
  match listStep (s.mat.drop idx) idx with
  | some (r, idx') => ({ s with its := setIt s.its i (.list idx') }, .row r false)
  | none => ({ s with its := setIt s.its i .done }, .stop)

def Multi.force (s : Multi) : Multi :=
  if s.attr then { s with mat := s.mat ++ s.pending, pending := [], attr := false } else s

def Multi.step (s : Multi) : MOp → Multi × MOut
  | .openIt => ({ s with its := s.its ++ [.fresh] }, .opened)
  | .force => (s.force, .size s.force.mat.length)
  | .next i =>
    match s.its[i]? with
    | none => (s, .bad)
    | some .fresh => if s.attr then s.doGen i else s.doList i 0
    | some .gen => s.doGen i
    | some (.list idx) => s.doList i idx
    | some .done => (s, .stop)

/-- a history: final state and what each operation returned -/
def Multi.run (s : Multi) : List MOp → Multi × List MOut
  | [] => (s, [])
  | o :: os =>
    let (s', out) := s.step o
    let (s'', outs) := s'.run os
    (s'', out :: outs)

def Multi.lazy (full : List Row) : Multi := ⟨[], full, true, []⟩
def Multi.listed (full : List Row) : Multi := ⟨full, [], false, []⟩

/-- the rows handed out by iterators reading from the generator, in the order of the history -/
def genYields : List MOut → List Row
  | [] => []
  | .row r true :: os => r :: genYields os
  | _ :: os => genYields os

end RV.C16
