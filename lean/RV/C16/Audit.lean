import RV.C16.Props
open RV.C16
#print axioms json_roundtrip
#print axioms xml_tree_roundtrip
#print axioms xml_text_survives
#print axioms xml_roundtrip_partial
#print axioms xml_roundtrip_witness
#print axioms xml_old_writer_loses_cr
#print axioms tsv_cell_roundtrip
#print axioms tsv_reader_complete
#print axioms tsv_old_reader_drops_unbound_rows
#print axioms csv_preserves
#print axioms escape_table
#print axioms bindings_complete
#print axioms old_iter_forgets_unbound_rows
#print axioms bindings_complete_interleaved
#print axioms gen_yields_prefix
#print axioms gen_yields_all_when_dry
#print axioms interleaved_iterators_share_rows
#print axioms json_text_roundtrip
#print axioms json_py_text_roundtrip
#print axioms csv_text_roundtrip
#print axioms csv_text_preserves
#print axioms xml_chardata_roundtrip
#print axioms xml_attr_roundtrip
#print axioms xml_chardata_witness
#print axioms xml_chardata_raw_cr
#print axioms xml_chardata_any_encoding
