import RV.C16.Props
open RV.C16
#print axioms placeholder
