import RV.C16.Model
/-
  C16 — several live iterators over one result: `mat ++ pending` is invariant under every operation of every
  iterator; the rows handed out by the iterators that read from the generator are, in history order, the bound
  rows of a prefix of the table.
-/
namespace RV.C16

def Multi.all (s : Multi) : List Row := s.mat ++ s.pending

theorem step_open (s : Multi) : s.step .openIt = ({ s with its := s.its ++ [.fresh] }, .opened) := rfl
theorem step_force (s : Multi) : s.step .force = (s.force, .size s.force.mat.length) := rfl
theorem step_next (s : Multi) (i : Nat) : s.step (.next i) =
    (match s.its[i]? with
     | none => (s, .bad)
     | some .fresh => if s.attr then s.doGen i else s.doList i 0
     | some .gen => s.doGen i
     | some (.list idx) => s.doList i idx
     | some .done => (s, .stop)) := rfl

theorem genStep_all (g mat : List Row) :
    (genStep g mat).1 ++ (genStep g mat).2.1 = mat ++ g := by
  induction g generalizing mat with
  | nil => simp [genStep]
  | cons b g ih =>
    simp only [genStep]
    split
    · simp
    · rw [ih]; simp

theorem genStep_none (g mat : List Row) (h : (genStep g mat).2.2 = none) : (genStep g mat).2.1 = [] := by
  induction g generalizing mat with
  | nil => simp [genStep]
  | cons b g ih =>
    simp only [genStep] at h ⊢
    split
    · next hb => simp [hb] at h
    · next hb => simp only [hb] at h; exact ih _ h

theorem doGen_all (s : Multi) (i : Nat) : (s.doGen i).1.all = s.all := by
  have h := genStep_all s.pending s.mat
  have hn := genStep_none s.pending s.mat
  unfold Multi.doGen
  rcases hg : genStep s.pending s.mat with ⟨m, p, o⟩
  rw [hg] at h hn
  cases o with
  | some r => simpa [Multi.all] using h
  | none =>
    have : p = [] := hn rfl
    subst this
    simpa [Multi.all] using h

theorem doList_all (s : Multi) (i idx : Nat) : (s.doList i idx).1.all = s.all := by
  unfold Multi.doList
  split <;> rfl

theorem mforce_all (s : Multi) : s.force.all = s.all := by
  unfold Multi.force
  split <;> simp [Multi.all]

theorem mstep_all (s : Multi) (o : MOp) : (s.step o).1.all = s.all := by
  cases o with
  | openIt => rfl
  | force => exact mforce_all s
  | next i =>
    rw [step_next]
    split
    · rfl
    · split
      · exact doGen_all s i
      · exact doList_all s i 0
    · exact doGen_all s i
    · exact doList_all s i _
    · rfl

theorem mrun_all (s : Multi) (ops : List MOp) : (s.run ops).1.all = s.all := by
  induction ops generalizing s with
  | nil => rfl
  | cons o os ih =>
    simp only [Multi.run]
    rw [ih, mstep_all]

/-! ### a cleared attribute means the generator holds nothing more -/

def Multi.ok (s : Multi) : Prop := s.attr = false → s.pending = []

theorem mstep_ok (s : Multi) (o : MOp) (h : s.ok) : (s.step o).1.ok := by
  have hn := genStep_none s.pending s.mat
  have gen_ok : ∀ i, (s.doGen i).1.ok := by
    intro i
    unfold Multi.doGen
    rcases hg : genStep s.pending s.mat with ⟨m, p, o⟩
    rw [hg] at hn
    cases o with
    | some r =>
      intro ha
      have hp := h ha
      rw [hp] at hg
      simp [genStep] at hg
    | none => intro _; rfl
  have list_ok : ∀ i idx, (s.doList i idx).1.ok := by
    intro i idx
    unfold Multi.doList
    split <;> exact h
  cases o with
  | openIt => exact h
  | force =>
    rw [step_force]
    show s.force.ok
    unfold Multi.force
    split
    · intro _; rfl
    · exact h
  | next i =>
    rw [step_next]
    split
    · exact h
    · split
      · exact gen_ok i
      · exact list_ok i 0
    · exact gen_ok i
    · exact list_ok i _
    · exact h

theorem mforce_mat (s : Multi) (h : s.ok) : s.force.mat = s.all := by
  unfold Multi.force Multi.all
  split
  · rfl
  · next ha =>
    have : s.attr = false := by simpa using ha
    simp [h this]

theorem mrun_ok (s : Multi) (ops : List MOp) (h : s.ok) : (s.run ops).1.ok := by
  induction ops generalizing s with
  | nil => exact h
  | cons o os ih => simp only [Multi.run]; exact ih _ (mstep_ok s o h)

/-! ### what the generator-reading iterators hand out -/

/-- `pre` = the rows the iterators have pulled from the generator so far; `noForce` = no `Result.bindings`
    read has moved rows yet -/
def YInv (full : List Row) (s : Multi) (log : List Row) (noForce : Bool) : Prop :=
  ∃ pre rest, pre ++ rest = full ∧ log = pre.filter rowBound ∧
    (s.pending ≠ [] → s.mat = pre ∧ rest = s.pending) ∧ (noForce = true → s.mat = pre ∧ rest = s.pending)

theorem genStep_yield (g mat : List Row) :
    ∃ pulled, (genStep g mat).1 = mat ++ pulled ∧ pulled ++ (genStep g mat).2.1 = g ∧
      pulled.filter rowBound = (match (genStep g mat).2.2 with | some r => [r] | none => []) := by
  induction g generalizing mat with
  | nil => exact ⟨[], by simp [genStep]⟩
  | cons b g ih =>
    simp only [genStep]
    split
    · next hb => exact ⟨[b], by simp [hb]⟩
    · next hb =>
      obtain ⟨p, h1, h2, h3⟩ := ih (mat ++ [b])
      refine ⟨b :: p, by simp [h1], by simp [h2], ?_⟩
      simp [List.filter, hb, h3]

def stepLog : MOut → List Row
  | .row r true => [r]
  | _ => []

theorem genYields_cons (o : MOut) (os : List MOut) : genYields (o :: os) = stepLog o ++ genYields os := by
  cases o with
  | row r b => cases b <;> rfl
  | _ => rfl

theorem doGen_yinv {full : List Row} {s : Multi} {log : List Row} {nf : Bool} (i : Nat)
    (h : YInv full s log nf) :
    YInv full (s.doGen i).1 (log ++ stepLog (s.doGen i).2) nf := by
  obtain ⟨pre, rest, hsplit0, hlog, hlive, hnf⟩ := h
  obtain ⟨pulled, h1, h2, h3⟩ := genStep_yield s.pending s.mat
  have hnone := genStep_none s.pending s.mat
  unfold Multi.doGen
  rcases hg : genStep s.pending s.mat with ⟨m, p, o⟩
  rw [hg] at h1 h2 h3 hnone
  simp only at h1 h2 h3 hnone
  by_cases hp : s.pending = []
  · -- nothing left: nothing pulled, nothing handed out
    rw [hp] at hg
    simp [genStep] at hg
    obtain ⟨rfl, rfl, rfl⟩ := hg
    refine ⟨pre, rest, hsplit0, by simpa [stepLog] using hlog, fun hne => absurd rfl hne, ?_⟩
    intro hn
    have := hnf hn
    exact ⟨this.1, by rw [this.2, hp]⟩
  · obtain ⟨hm, hr⟩ := hlive hp
    have hsplit : (pre ++ pulled) ++ p = full := by
      rw [List.append_assoc, h2, ← hr]; exact hsplit0
    cases o with
    | some r =>
      refine ⟨pre ++ pulled, p, hsplit, ?_, fun _ => ⟨by simp [h1, hm], rfl⟩, fun _ => ⟨by simp [h1, hm], rfl⟩⟩
      simp [stepLog, List.filter_append, hlog, h3]
    | none =>
      have hpn : p = [] := hnone rfl
      subst hpn
      refine ⟨pre ++ pulled, [], hsplit, ?_, fun hne => absurd rfl hne, fun _ => ⟨by simp [h1, hm], rfl⟩⟩
      simp [stepLog, List.filter_append, hlog, h3]

theorem doList_yinv {full : List Row} {s : Multi} {log : List Row} {nf : Bool} (i idx : Nat)
    (h : YInv full s log nf) : YInv full (s.doList i idx).1 (log ++ stepLog (s.doList i idx).2) nf := by
  obtain ⟨pre, rest, hsplit, hlog, hlive, hnf⟩ := h
  unfold Multi.doList
  split
  · exact ⟨pre, rest, hsplit, by simpa [stepLog] using hlog, hlive, hnf⟩
  · exact ⟨pre, rest, hsplit, by simpa [stepLog] using hlog, hlive, hnf⟩

def isForce : MOp → Bool
  | .force => true
  | _ => false

theorem mstep_yinv {full : List Row} {s : Multi} {log : List Row} {nf : Bool} (o : MOp)
    (h : YInv full s log nf) :
    YInv full (s.step o).1 (log ++ stepLog (s.step o).2) (nf && !isForce o) := by
  cases o with
  | openIt =>
    obtain ⟨pre, rest, hsplit, hlog, hlive, hnf⟩ := h
    rw [step_open]
    exact ⟨pre, rest, hsplit, by simpa [stepLog] using hlog, hlive, by simpa [isForce] using hnf⟩
  | force =>
    obtain ⟨pre, rest, hsplit, hlog, hlive, hnf⟩ := h
    rw [step_force]
    refine ⟨pre, rest, hsplit, by simpa [stepLog] using hlog, ?_, by simp [isForce]⟩
    intro hne
    simp only [Multi.force] at hne ⊢
    split at hne
    · exact absurd rfl hne
    · next ha => simpa [ha] using hlive hne
  | next i =>
    have e : (nf && !isForce (MOp.next i)) = nf := by simp [isForce]
    rw [e, step_next]
    split
    · obtain ⟨pre, rest, hsplit, hlog, hlive, hnf⟩ := h
      exact ⟨pre, rest, hsplit, by simpa [stepLog] using hlog, hlive, hnf⟩
    · split
      · exact doGen_yinv i h
      · exact doList_yinv i 0 h
    · exact doGen_yinv i h
    · exact doList_yinv i _ h
    · obtain ⟨pre, rest, hsplit, hlog, hlive, hnf⟩ := h
      exact ⟨pre, rest, hsplit, by simpa [stepLog] using hlog, hlive, hnf⟩

theorem mrun_yinv {full : List Row} (ops : List MOp) {s : Multi} {log : List Row} {nf : Bool}
    (h : YInv full s log nf) :
    YInv full (s.run ops).1 (log ++ genYields (s.run ops).2) (nf && !ops.any isForce) := by
  induction ops generalizing s log nf with
  | nil => simpa [Multi.run, genYields] using h
  | cons o os ih =>
    have h2 := ih (mstep_yinv o h)
    simp only [Multi.run, genYields_cons]
    rw [List.append_assoc] at h2
    simpa [Bool.and_assoc, Bool.not_or] using h2

theorem yinv_lazy (full : List Row) : YInv full (Multi.lazy full) [] true :=
  ⟨[], full, rfl, rfl, fun _ => ⟨rfl, rfl⟩, fun _ => ⟨rfl, rfl⟩⟩

end RV.C16
