#!/usr/bin/env python3
"""Assemble MANIFEST.json from manifest.d/_head.json, manifest.d/Cxx.json and manifest.d/_not_applicable.json."""
import glob, json, os
here = os.path.dirname(os.path.abspath(__file__)); root = os.path.join(here, "..")
m = json.load(open(os.path.join(root, "manifest.d", "_head.json")))
m["checks"] = [json.load(open(f)) for f in sorted(glob.glob(os.path.join(root, "manifest.d", "C*.json")))]
claimed = {c["property_id"] for c in m["checks"]}
na_path = os.path.join(root, "manifest.d", "_not_applicable.json")
na = json.load(open(na_path)) if os.path.exists(na_path) else {}
props = [json.loads(l)["id"] for l in open(os.path.join(root, "properties.jsonl"))]
m["not_applicable"] = [{"property_id": p, "reason": na.get(p, "check not built yet in this round; planned in DESIGN.md §6")}
                       for p in props if p not in claimed]
for e in m["engines"]:
    e["serves_properties"] = sorted(claimed)
json.dump(m, open(os.path.join(root, "MANIFEST.json"), "w"), indent=1)
try:
    import jsonschema
    jsonschema.validate(m, json.load(open("/root/.vp/MANIFEST.schema.json")))
    print("MANIFEST.json valid;", len(m["checks"]), "checks;", len(m["not_applicable"]), "not claimed")
except ImportError:
    print("MANIFEST.json written (jsonschema not available)")
