#!/venv/bin/python
"""tools/gen_tables.py — regenerate every lean/RV/Cxx/Tables.lean from /repo's current source
(each property module's TABLES() hook).  Run by setup_cmd before `lake build`, so a stale committed
table can never break the build; every check regenerates its own table again at run time."""
import importlib, os, sys
ROOT = os.path.dirname(os.path.dirname(os.path.abspath(__file__)))
sys.path.insert(0, os.path.join(ROOT, "harness"))
import core  # noqa: E402
n = 0
for f in sorted(os.listdir(os.path.join(ROOT, "harness"))):
    if len(f) == 6 and f[0] == "c" and f[1:3].isdigit() and f.endswith(".py"):
        mod = importlib.import_module(f[:-3])
        t = getattr(mod, "TABLES", None)
        if t is None:
            continue
        try:
            txt = t()
        except Exception as e:
            print(f"{mod.ID}: table extraction failed: {e!r}")
            continue
        path = os.path.join(ROOT, "lean", "RV", mod.ID, "Tables.lean")
        if not os.path.exists(path) or open(path).read() != txt:
            open(path, "w").write(txt)
            print(f"{mod.ID}: Tables.lean rewritten")
        n += 1
print(f"{n} tables regenerated from {core.REPO}")
