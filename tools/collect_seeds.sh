#!/bin/sh
# tools/collect_seeds.sh Cxx tag first-index — copy /tmp/seed/out-Cxx<tag>/{1,2,3} to seeded/Cxx-<n>, confirm demos on a scratch worktree of /repo main
P=$1; TAG=$2; N=${3:-1}
cd /verif
git -C /repo worktree add -q --detach /tmp/seed/confirm-$P main || exit 1
for i in 1 2 3; do
  d=seeded/$P-$((N+i-1)); mkdir -p $d
  cp /tmp/seed/out-$P$TAG/$i/patch.diff /tmp/seed/out-$P$TAG/$i/demo.py /tmp/seed/out-$P$TAG/$i/meta.json $d/
  cd /tmp/seed/confirm-$P
  PYTHONPATH=/tmp/seed/confirm-$P timeout 300 /venv/bin/python /verif/$d/demo.py >/dev/null 2>&1; a=$?
  if git apply /verif/$d/patch.diff 2>/dev/null; then PYTHONPATH=/tmp/seed/confirm-$P timeout 300 /venv/bin/python /verif/$d/demo.py >/dev/null 2>&1; b=$?; else b=NOAPPLY; fi
  git checkout -q -- .; cd /verif
  echo "$P-$((N+i-1)): clean=$a patched=$b"
done
git -C /repo worktree remove --force /tmp/seed/confirm-$P
git -C /repo worktree remove --force /tmp/seed/$P$TAG 2>/dev/null; git -C /repo branch -D -q seed-$P$TAG 2>/dev/null
true
