#!/usr/bin/env python3
"""tools/run_par.py seeded|harmless [-j N] [ids…] — the parallel form of run_seeded.py / run_harmless.py.

Each of N workers owns a scratch worktree of /verif's HEAD and one of /repo's HEAD (under /root/par, outside
/repo and /verif, removed at the end).  A worker applies one patch to ITS repo worktree, runs the quick check of
the targeted property (and of meta.json "also") in ITS verif worktree with VERIF_REPO pointing at the patched
worktree, and restores the worktree.  /repo and /verif themselves are never touched, so this can run while
work goes on; the checks are exactly the committed ones.  Writes <kind>/RESULTS.md when no ids are given.
The serial tools (run_seeded.py, run_harmless.py) do the same on /repo itself."""
import json, os, subprocess, sys, time, shutil
from concurrent.futures import ThreadPoolExecutor
import queue
ROOT = os.path.dirname(os.path.dirname(os.path.abspath(__file__)))
PAR = f"/root/par/{os.getpid()}"   # one scratch area per invocation, removed at the end
def sh(cmd, **kw):
    return subprocess.run(cmd, shell=True, stdout=subprocess.PIPE, stderr=subprocess.STDOUT, text=True, **kw)
def setup(k):
    v, r = f"{PAR}/v{k}", f"{PAR}/r{k}"
    for d, src in ((v, ROOT), (r, "/repo")):
        sh(f"git -C {src} worktree remove --force {d}")
        shutil.rmtree(d, ignore_errors=True)
        x = sh(f"git -C {src} worktree add --detach -q {d} HEAD")
        assert x.returncode == 0, x.stdout
    # start from /verif's build output when it is there (same sources at HEAD → nothing to rebuild)
    if os.path.isdir(f"{ROOT}/lean/.lake"):
        sh(f"cp -a {ROOT}/lean/.lake {v}/lean/.lake")
    x = sh(f"cd {v} && python3 tools/gen_lakefile.py && VERIF_REPO={r} /venv/bin/python tools/gen_tables.py && cd lean && lake build", )
    assert x.returncode == 0, x.stdout[-2000:]
    return v, r
def teardown(k):
    sh(f"git -C {ROOT} worktree remove --force {PAR}/v{k}")
    sh(f"git -C /repo worktree remove --force {PAR}/r{k}")
def main():
    args = sys.argv[1:]
    kind = args.pop(0)   # seeded | harmless | a directory of <id>/{patch.diff, meta.json} (tools/mutate.py)
    assert kind in ("seeded", "harmless") or os.path.isdir(kind)
    n = 6
    if args and args[0] == "-j":
        n = int(args[1]); args = args[2:]
    ids = args or sorted(d for d in os.listdir(os.path.join(ROOT, kind)) if os.path.isdir(os.path.join(ROOT, kind, d)))
    good, bad = ("ALARM", "QUIET") if kind == "harmless" else ("CAUGHT", "MISSED")
    os.makedirs(PAR, exist_ok=True)
    n = min(n, len(ids))
    with ThreadPoolExecutor(n) as ex:
        slots = list(ex.map(setup, range(n)))
    free = queue.Queue()
    for s in slots:
        free.put(s)
    def one(i):
        v, r = free.get()
        rows = []
        try:
            d = os.path.join(ROOT, kind, i)
            meta = json.load(open(os.path.join(d, "meta.json")))
            props = [meta["property"]] + list(meta.get("also", []))
            a = sh(f"git -C {r} apply {d}/patch.diff")
            if a.returncode != 0:
                return [(i, meta["property"], "PATCH-DOES-NOT-APPLY", a.stdout.strip()[:80])]
            try:
                for p in props:
                    t = time.time()
                    c = sh(f"cd {v} && ./check {p} --tier quick",
                           env={**os.environ, "VERIF_REPO": r, "VERIF_SEED": os.environ.get("VERIF_SEED", "0"),
                                "VERIF_TIMEOUT_SCALE": os.environ.get("VERIF_TIMEOUT_SCALE", "5")})
                    vl = [l for l in c.stdout.splitlines() if l.startswith("VIOLATION")]
                    rows.append((i, p, f"exit={c.returncode} " + (good if c.returncode == 1 and vl else bad if c.returncode == 0 else "ERROR"),
                                 (vl[0][:150] if vl else (c.stdout.strip().splitlines() or ["?"])[-1][:150]) + f" ({time.time()-t:.0f}s)"))
            finally:
                sh(f"git -C {r} checkout -- . && git -C {r} clean -fdq rdflib")
                sh(f"cd {v} && git checkout -- lean/RV/*/Tables.lean evidence; git clean -fdq replays")
        finally:
            free.put((v, r))
        for row in rows:
            print(*row, sep="  ", flush=True)
        return rows
    with ThreadPoolExecutor(n) as ex:
        allrows = [row for rows in ex.map(one, ids) for row in rows]
    for k in range(n):
        teardown(k)
    shutil.rmtree(PAR, ignore_errors=True)
    head = ("# Seeded changes vs checks (quick tier)" if kind == "seeded" else
            "# Behaviour-preserving rewrites vs checks (quick tier): QUIET is the wanted result")
    out = [head, "", "| seeded id | check | result | first line |", "|---|---|---|---|"]
    for r in allrows:
        out.append("| " + " | ".join(x.replace("|", "\\|") for x in r) + " |")
    if not args:
        open(os.path.join(ROOT, kind, "RESULTS.md"), "w").write("\n".join(out) + "\n")
    if os.path.isabs(kind):
        with open(os.path.join(kind, "RESULTS.tsv"), "a") as f:
            for r in allrows:
                f.write("\t".join(r) + "\n")
    cnt = {}
    for r in allrows:
        w = r[2].split()[-1]
        cnt[w] = cnt.get(w, 0) + 1
    print("TOTAL", cnt)
main()
