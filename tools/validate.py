#!/usr/bin/env python3
"""Validate MANIFEST.json and every evidence file against the schemas (run with python3-vt)."""
import glob, json, sys, jsonschema
ok = True
m = json.load(open("MANIFEST.json"))
jsonschema.validate(m, json.load(open("/root/.vp/MANIFEST.schema.json")))
sch = json.load(open("/root/.vp/EVIDENCE.schema.json"))
for c in m["checks"]:
    try:
        ev = json.load(open(c["evidence_file"]))
        jsonschema.validate(ev, sch)
        cov = ev["coverage"]
        assert ev["level"] == c["level_claimed"]["category"], "level mismatch"
        if ev["level"] == "proof":
            assert cov["obligations"] == cov["discharged"] >= 1, "undischarged obligations"
        print(c["property_id"], "ok", ev["tier"], "violations=", ev.get("violations"))
    except Exception as e:
        ok = False
        print(c["property_id"], "INVALID", repr(e)[:300])
sys.exit(0 if ok else 1)
