#!/bin/sh
# tools/runall.sh [tier] — run every claimed check once (VERIF_SEED from env), print summary lines
cd "$(dirname "$0")/.." || exit 2
TIER=${1:-quick}
for p in $(python3 -c "import json;print(' '.join(c['property_id'] for c in json.load(open('MANIFEST.json'))['checks']))"); do
  out=$(./check $p --tier $TIER 2>&1); rc=$?
  echo "$out" | grep -E "^\[$p\] tier|^VIOLATION|^STALE" | cut -c1-220
  [ $rc -ne 0 ] && echo "   -> $p exit $rc"
done
