#!/bin/sh
# tools/collect_harmless.sh Cxx tag first-index — copy /tmp/seed/out-Cxx<tag>/{1,2,3} to harmless/Cxx-<n>; check the patch applies to /repo main
P=$1; TAG=$2; N=${3:-1}
cd /verif
git -C /repo worktree add -q --detach /tmp/seed/confirm-$P main || exit 1
for i in 1 2 3; do
  [ -f /tmp/seed/out-$P$TAG/$i/patch.diff ] || continue
  d=harmless/$P-$((N+i-1)); mkdir -p $d
  cp /tmp/seed/out-$P$TAG/$i/patch.diff /tmp/seed/out-$P$TAG/$i/meta.json $d/
  cd /tmp/seed/confirm-$P; if git apply --check /verif/$d/patch.diff 2>/dev/null; then a=applies; else a=NOAPPLY; fi; cd /verif
  echo "$P-$((N+i-1)): $a"
done
git -C /repo worktree remove --force /tmp/seed/confirm-$P
git -C /repo worktree remove --force /tmp/seed/$P$TAG 2>/dev/null; git -C /repo branch -D -q seed-$P$TAG 2>/dev/null
true
