#!/bin/sh
# tools/mkwt.sh Cxx — create the builder worktrees for one property (outside /repo and /verif)
set -e
P=$1
git -C /verif worktree add -q /root/wt/v-$P -b wip-$P 2>/dev/null || git -C /verif worktree add -q /root/wt/v-$P wip-$P
git -C /repo worktree add -q /root/wt/r-$P -b fix-$P 2>/dev/null || git -C /repo worktree add -q /root/wt/r-$P fix-$P
echo "$P: /root/wt/v-$P (wip-$P)  /root/wt/r-$P (fix-$P)"
