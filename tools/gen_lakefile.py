#!/usr/bin/env python3
"""Regenerate lean/lakefile.toml: library RV (all modules) + one exe per RV/Cxx/Drive.lean."""
import glob, os
here = os.path.dirname(os.path.abspath(__file__))
lean = os.path.join(here, "..", "lean")
out = ['name = "rdfverif"', 'version = "0.1.0"', 'defaultTargets = ["RV"]', "",
       "[[lean_lib]]", 'name = "RV"', 'globs = ["RV.+"]', ""]
exes = []
for d in sorted(glob.glob(os.path.join(lean, "RV", "*", "Drive.lean"))):
    prop = os.path.basename(os.path.dirname(d))
    exes.append(f"drv_{prop.lower()}")
    out += ["[[lean_exe]]", f'name = "drv_{prop.lower()}"', f'root = "RV.{prop}.Drive"', ""]
out[2] = "defaultTargets = [" + ", ".join(f'"{t}"' for t in ["RV"] + exes) + "]"
txt = "\n".join(out)
p = os.path.join(lean, "lakefile.toml")
if not os.path.exists(p) or open(p).read() != txt:
    open(p, "w").write(txt)
print(" ".join(exes))
