#!/usr/bin/env python3
"""tools/seed_prompt.py Cxx <tag> — print the prompt for an independent seeding sub-agent (property text only)."""
import json, sys
pid, tag = sys.argv[1], sys.argv[2]
p = next(json.loads(l) for l in open("/verif/properties.jsonl") if json.loads(l)["id"] == pid)
wt, out = f"/tmp/seed/{pid}{tag}", f"/tmp/seed/out-{pid}{tag}"
import glob, os
prior = []
for m in sorted(glob.glob(f"/verif/seeded/{pid}-*/meta.json")):
    try:
        prior.append("- " + json.load(open(m))["what"][:300])
    except Exception:
        pass
if tag.startswith("d"):
    prior = []   # round d: an unbiased sample, no list of earlier changes is shown
avoid = ("\n\nOther people already produced the following changes for this property; yours must be DIFFERENT in mechanism and location (do not repeat or trivially vary them):\n" + "\n".join(prior)) if prior else ""
print(f"""You are helping evaluate a verification effort on the Python library rdflib by writing realistic *breaking changes* (seeded defects). You work ONLY inside the git worktree `{wt}` (a checkout of rdflib) and the output directory `{out}` (create it). Python is `/venv/bin/python`; ALWAYS run things with `PYTHONPATH={wt}` so that this checkout is imported (check once: `cd {wt} && PYTHONPATH={wt} /venv/bin/python -c "import rdflib; print(rdflib.__file__)"` must print a path under {wt}). Do not read or write anything under /verif or /repo or other directories of /tmp/seed. There is no network. NEVER use `git stash` (the stash is shared with other worktrees); to go back to the clean tree use `git checkout -- rdflib`, and use `git apply` / `git apply -R` with your saved patch files.

The property that should hold of rdflib:

> **{p['title']}.** {p['statement']}
> Quantifier: {p['quantifier']['text']}
> Code involved: {', '.join(p['anchors']['files'])}

Your task: produce THREE different, independent changes to rdflib's source (under `rdflib/`, not tests) each of which
1. breaks the property above for some inputs / histories / configurations,
2. still imports, and still passes rdflib's existing test suite: run the test files relevant to the code you touch with and without the change, and at the end the full suite once per change if you can afford it (`cd {wt} && PYTHONPATH={wt} /venv/bin/python -m pytest -q -p no:cacheprovider --timeout=900 2>&1 | tail -5`, ~3–6 minutes; about 24 pre-existing failures (network/subprocess) exist on the clean checkout too — compare the summary line and the set of failing tests against a clean run),
3. looks like a plausible mistake, refactoring slip or "optimisation" a maintainer could make (no sabotage with obviously dead or bizarre code), and
4. needs something SPECIFIC to manifest — a particular multi-step sequence of operations, an unusual input (a particular kind of term, an empty/falsy value, a particular graph shape or name, a wildcard in a particular position), a particular interleaving, a particular configuration/option, or two cooperating sites that each look fine alone — NOT something that the most ordinary use exposes at once.
Make the three changes different in kind and in the code they touch (different functions, preferably different files among those listed above).{avoid}

For each change i ∈ {{1,2,3}} write into `{out}/<i>/`:
* `patch.diff` — `git diff` of ONLY that change against the clean checkout (apply one change at a time; `git checkout -- rdflib` between them),
* `demo.py` — a small self-contained program that exits 0 on the clean checkout and exits 1 (printing what went wrong) with the change applied, using only the public API, runnable as `PYTHONPATH=<checkout> /venv/bin/python demo.py`,
* `meta.json` — {{"property": "{pid}", "what": "<one sentence: what is broken>", "needs": "<what specific sequence/input/interleaving/configuration is needed to manifest>", "files": [...], "tests_run": "<the pytest commands you ran and their summary lines with and without the change>"}}.
Verify yourself: demo exits 0 on clean and 1 with the patch; test results are the same with and without the patch. Leave the worktree clean (`git checkout -- rdflib`) when done. Final message: a ≤12-line summary of the three changes.""")
