#!/usr/bin/env python3
"""tools/refactor_prompt.py Cxx <tag> — prompt for an independent sub-agent that writes BEHAVIOUR-PRESERVING rewrites
(to measure false alarms); it sees only the property text."""
import json, sys
pid, tag = sys.argv[1], sys.argv[2]
p = next(json.loads(l) for l in open("/verif/properties.jsonl") if json.loads(l)["id"] == pid)
wt, out = f"/tmp/seed/{pid}{tag}", f"/tmp/seed/out-{pid}{tag}"
print(f"""You are helping evaluate a verification effort on the Python library rdflib by writing realistic *harmless refactorings*: changes to the source that a maintainer might make and that must NOT be reported as breaking the property below. You work ONLY inside the git worktree `{wt}` (a checkout of rdflib) and the output directory `{out}` (create it). Python is `/venv/bin/python`; ALWAYS run things with `PYTHONPATH={wt}` (check once: `cd {wt} && PYTHONPATH={wt} /venv/bin/python -c "import rdflib; print(rdflib.__file__)"` prints a path under {wt}). Do not read or write anything under /verif or /repo or other directories of /tmp/seed. No network. NEVER use `git stash`; return to the clean tree with `git checkout -- rdflib test_reports`.

The property that must keep holding:

> **{p['title']}.** {p['statement']}
> Quantifier: {p['quantifier']['text']}
> Code involved: {', '.join(p['anchors']['files'])}

Your task: produce THREE different, independent refactorings of the code involved (under `rdflib/`, not tests), each of which
1. changes the implementation in a non-trivial way — e.g. a different internal data structure or index layout, a different iteration order of sets/dicts, a loop rewritten as comprehension/generator or vice versa, helper functions split or merged, caching of something that is provably safe to cache, a different but EQUIVALENT spelling of produced text where the format allows several (attribute order, insignificant whitespace, which of two equivalent escapes is used, order of statements/rows where order is not part of the contract), different generated identifiers where they are arbitrary (blank-node ids, generated prefix names) —
2. provably keeps the property above true for ALL inputs (argue it in meta.json; do not change any behaviour the property constrains, and do not "fix" anything),
3. passes rdflib's existing test suite exactly as the clean checkout does (run the relevant test files with and without the change, and the full suite once per change if you can: `cd {wt} && PYTHONPATH={wt} /venv/bin/python -m pytest -q -p no:cacheprovider --timeout=900 2>&1 | tail -5`; ~24 pre-existing network failures exist on clean too), and
4. is the kind of change that could plausibly trip a too-literal checker (one that compares internal state, exact text, exact ids or iteration order instead of what the property talks about).
Make the three different in kind and location.

For each change i ∈ {{1,2,3}} write into `{out}/<i>/`: `patch.diff` (`git diff -- rdflib` of ONLY that change against the clean checkout), `meta.json` — {{"property": "{pid}", "kind": "harmless", "what": "<what was rewritten>", "why_harmless": "<argument that the property still holds for all inputs>", "files": [...], "tests_run": "<commands and summary lines with and without the change>"}}. Leave the worktree clean when done. Final message: ≤10-line summary.""")
