#!/bin/sh
# tools/merge_builder.sh Cxx — merge branch wip-Cxx into /verif main (regenerating generated files)
# and cherry-pick fix-Cxx's commits onto /repo main.  Stops on a real conflict.
set -e
P=$1
cd /verif
git merge --no-commit --no-ff wip-$P >/dev/null 2>&1 || true
for f in MANIFEST.json known_findings.jsonl lean/lakefile.toml; do
  git checkout --ours -- $f 2>/dev/null || true
  git add -- $f 2>/dev/null || true
done
for f in $(git diff --name-only --diff-filter=U | grep '^evidence/' || true); do git checkout --theirs -- $f; git add -- $f; done
if git diff --name-only --diff-filter=U | grep -q .; then echo "CONFLICTS in /verif:"; git diff --name-only --diff-filter=U; exit 1; fi
python3 tools/gen_lakefile.py >/dev/null
python3-vt tools/mkmanifest.py
git add -A
git commit -q -m "Merge builder branch wip-$P" || true
cd /repo && git checkout -- test_reports
BASE=$(git merge-base main fix-$P)
N=$(git rev-list --count $BASE..fix-$P)
echo "cherry-picking $N fix commits of $P"
touch /verif/tools/picked.txt
for c in $(git rev-list --reverse --no-merges $BASE..fix-$P); do
  if grep -q "^$c" /verif/tools/picked.txt; then continue; fi
  subj=$(git log -1 --format=%s $c)
  if git log --format=%s main | grep -qxF "$subj"; then echo "  (already on main: $subj)" | cut -c1-120; echo "$c dup $P" >> /verif/tools/picked.txt; continue; fi
  if git cherry-pick $c >/dev/null 2>&1; then echo "$c picked $P" >> /verif/tools/picked.txt; else
    if git diff --quiet && git diff --cached --quiet; then echo "  (skipping redundant $(git log --oneline -1 $c))" | cut -c1-120; git cherry-pick --skip; echo "$c redundant $P" >> /verif/tools/picked.txt;
    else echo "CHERRY-PICK CONFLICT in /repo at $(git log --oneline -1 $c)"; git status --short | grep -v '^??' | head; git cherry-pick --abort; exit 1; fi
  fi
done
git log --oneline -$((N+1)) | cat
