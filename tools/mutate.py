#!/usr/bin/env python3
"""tools/mutate.py gen Cxx [N] [seed] — systematic first-order mutants of the anchored rdflib code that the
property's correspondence run really executes (coverage/Cxx.json, written by every `./check Cxx`).

A development aid that measures the adequacy of the model/implementation tie and of the property oracles in a
way the hand-seeded changes cannot: every mutant is a one-token edit (comparison flipped, `is None` turned into a
truthiness test and back, and/or swapped, `not` dropped, boolean / small integer constant changed, + and - swapped,
a call / augmented assignment / del statement dropped, continue/break swapped) inside a line the check executes.
Mutants are written to /root/mut/Cxx-<k>/{patch.diff,meta.json} (outside /repo and /verif) in the layout
tools/run_par.py understands:  `python3 tools/run_par.py /root/mut -j 5 Cxx-1 Cxx-2 …`.
A surviving mutant is not by itself a miss: it may be equivalent, or change behaviour outside the property's
statement; survivors are triaged by hand (design.d/MUTATION.md).  Nothing here decides a verdict."""
import ast, json, os, random, subprocess, sys, difflib
ROOT = os.path.dirname(os.path.dirname(os.path.abspath(__file__)))
REPO = os.environ.get("VERIF_REPO", "/repo")
OUT = "/root/mut"
CMP = {ast.Eq: "!=", ast.NotEq: "==", ast.Lt: "<=", ast.LtE: "<", ast.Gt: ">=", ast.GtE: ">", ast.In: "not in", ast.NotIn: "in",
       ast.Is: "is not", ast.IsNot: "is"}
def seg(src_lines, node):
    if node.lineno != node.end_lineno:
        return None
    return src_lines[node.lineno - 1][node.col_offset:node.end_col_offset]
def candidates(path, lines_hit):
    src = open(path, encoding="utf-8").read()
    L = src.split("\n")
    tree = ast.parse(src)
    out = []   # (lineno, col, end_col, replacement, operator-name)
    def rep(node, new, name):
        if node.lineno == node.end_lineno and node.lineno in lines_hit:
            out.append((node.lineno, node.col_offset, node.end_col_offset, new, name))
    for fn in ast.walk(tree):
        if not isinstance(fn, (ast.FunctionDef, ast.AsyncFunctionDef)):
            continue
        for node in ast.walk(fn):
            if isinstance(node, ast.Compare) and len(node.ops) == 1 and node.lineno == node.end_lineno:
                l, r, op = node.left, node.comparators[0], node.ops[0]
                ls, rs = seg(L, l), seg(L, r)
                if ls is None or rs is None:
                    continue
                if isinstance(op, (ast.Is, ast.IsNot)) and isinstance(r, ast.Constant) and r.value is None:
                    # the classic: `x is None` -> `not x`, `x is not None` -> `x`  (truthiness instead of identity)
                    rep(node, f"(not {ls})" if isinstance(op, ast.Is) else f"({ls})", "none-to-truthiness")
                rep(node, f"{ls} {CMP[type(op)]} {rs}", "flip-compare")
            elif isinstance(node, ast.BoolOp) and node.lineno == node.end_lineno and len(node.values) == 2:
                a, b = seg(L, node.values[0]), seg(L, node.values[1])
                if a and b:
                    rep(node, f"{a} {'or' if isinstance(node.op, ast.And) else 'and'} {b}", "and-or")
            elif isinstance(node, ast.UnaryOp) and isinstance(node.op, ast.Not):
                a = seg(L, node.operand)
                if a:
                    rep(node, f"({a})", "drop-not")
            elif isinstance(node, (ast.If, ast.While)) and not isinstance(node.test, (ast.Compare, ast.BoolOp, ast.UnaryOp, ast.Constant)):
                t = seg(L, node.test)
                if t and node.test.lineno in lines_hit:
                    out.append((node.test.lineno, node.test.col_offset, node.test.end_col_offset, f"not ({t})", "negate-test"))
                    if isinstance(node.test, (ast.Name, ast.Attribute)):
                        out.append((node.test.lineno, node.test.col_offset, node.test.end_col_offset, f"{t} is not None", "truthiness-to-none"))
            elif isinstance(node, ast.Constant) and node.lineno == node.end_lineno:
                if node.value is True or node.value is False:
                    rep(node, str(not node.value), "bool-const")
                elif isinstance(node.value, int) and 0 <= node.value <= 3 and seg(L, node) == str(node.value):
                    rep(node, str(node.value + 1), "int-const")
            elif isinstance(node, ast.BinOp) and isinstance(node.op, (ast.Add, ast.Sub)) and node.lineno == node.end_lineno:
                a, b = seg(L, node.left), seg(L, node.right)
                if a and b and not any(isinstance(x, (ast.Constant, ast.JoinedStr)) and not isinstance(getattr(x, "value", 0), int) for x in (node.left, node.right)):
                    rep(node, f"{a} {'-' if isinstance(node.op, ast.Add) else '+'} {b}", "plus-minus")
            elif isinstance(node, ast.Expr) and isinstance(node.value, ast.Call) and node.lineno == node.end_lineno:
                rep(node, "pass", "drop-call")
            elif isinstance(node, (ast.AugAssign, ast.Delete)) and node.lineno == node.end_lineno:
                rep(node, "pass", "drop-stmt")
            elif isinstance(node, ast.Continue):
                rep(node, "break", "continue-break")
            elif isinstance(node, ast.Break):
                rep(node, "continue", "break-continue")
    return src, L, sorted(set(out))
def anchored(prop):
    for line in open(os.path.join(ROOT, "properties.jsonl"), encoding="utf-8"):
        e = json.loads(line)
        if e["id"] == prop:
            return [f for f in e["anchors"]["files"] if f.startswith("rdflib/") and f.endswith(".py")]
    return []
def gen(prop, n, seed):
    cov = json.load(open(os.path.join(ROOT, "coverage", f"{prop}.json")))
    rng = random.Random(f"mut:{prop}:{seed}")
    pool = []
    files = anchored(prop)
    # how many properties anchor each file: widely shared files (graph.py, term.py) are sampled less
    share = {}
    for line in open(os.path.join(ROOT, "properties.jsonl"), encoding="utf-8"):
        for f in json.loads(line)["anchors"]["files"]:
            share[f] = share.get(f, 0) + 1
    per_file = {}
    for rel in files:
        hit = set(cov.get(rel, ()))
        if not hit:
            continue
        src, L, cands = candidates(os.path.join(REPO, rel), hit)
        per_file[rel] = (src, L, cands)
    weights = {rel: (len(c[2]) ** 0.5) / share.get(rel, 1) for rel, c in per_file.items() if c[2]}
    chosen, seen = [], set()
    tries = 0
    while len(chosen) < n and tries < n * 50 and weights:
        tries += 1
        rel = rng.choices(list(weights), weights=list(weights.values()))[0]
        c = rng.choice(per_file[rel][2])
        if (rel, c) in seen:
            continue
        seen.add((rel, c))
        src, L, _ = per_file[rel]
        ln, a, b, new, name = c
        NL = list(L)
        NL[ln - 1] = L[ln - 1][:a] + new + L[ln - 1][b:]
        newsrc = "\n".join(NL)
        try:
            compile(newsrc, rel, "exec")
        except SyntaxError:
            continue
        diff = "".join(difflib.unified_diff(src.splitlines(True), newsrc.splitlines(True), "a/" + rel, "b/" + rel, n=3))
        chosen.append((rel, ln, name, L[ln - 1].strip(), NL[ln - 1].strip(), diff))
    os.makedirs(OUT, exist_ok=True)
    for k, (rel, ln, name, old, new, diff) in enumerate(chosen, 1):
        d = os.path.join(OUT, f"{prop}-{k}")
        os.makedirs(d, exist_ok=True)
        open(os.path.join(d, "patch.diff"), "w").write(diff)
        json.dump({"property": prop, "file": rel, "line": ln, "operator": name, "old": old, "new": new},
                  open(os.path.join(d, "meta.json"), "w"), indent=1)
    print(f"{prop}: {len(chosen)} mutants in {OUT}/{prop}-*  (candidates: " + ", ".join(f"{r}={len(c[2])}" for r, c in per_file.items()) + ")")
if __name__ == "__main__":
    if sys.argv[1] == "gen":
        gen(sys.argv[2], int(sys.argv[3]) if len(sys.argv) > 3 else 40, sys.argv[4] if len(sys.argv) > 4 else "0")
