#!/usr/bin/env python3
"""Run the repository's pinned test suite (guard OFF) and compare with BASELINE.json.

usage: tools/baseline.py [--repo /repo]
exit 0 iff every test in BASELINE.stable_pass passed.
"""
import json, os, subprocess, sys, tempfile, xml.etree.ElementTree as ET

def main():
    repo = "/repo"
    if "--repo" in sys.argv:
        repo = sys.argv[sys.argv.index("--repo") + 1]
    base = json.load(open("/root/.vp/BASELINE.json"))
    env = dict(os.environ)
    env.pop("RDFLIB_VERIF", None)
    env["PYTHONPATH"] = repo
    out = tempfile.mkdtemp(prefix="baseline-", dir=os.path.expanduser("~"))
    junit = os.path.join(out, "junit.xml")
    cmd = ["/venv/bin/python", "-m", "pytest", "-ra", "-q", "-p", "no:cacheprovider",
           "--timeout=900", "--continue-on-collection-errors", "--junitxml=" + junit]
    p = subprocess.run(cmd, cwd=repo, env=env, stdout=subprocess.PIPE, stderr=subprocess.STDOUT, text=True)
    tail = p.stdout.strip().splitlines()[-1:] if p.stdout else []
    # rdflib's W3C tests rewrite tracked report files; put them back
    subprocess.run(["git", "-C", repo, "checkout", "--", "test_reports"], stdout=subprocess.DEVNULL, stderr=subprocess.DEVNULL)
    passed = set()
    for tc in ET.parse(junit).getroot().iter("testcase"):
        if any(ch.tag in ("failure", "error", "skipped") for ch in tc):
            continue
        passed.add(f"{tc.get('classname')}::{tc.get('name')}")
    # test_swap_n3 parametrises over an unordered collection: its numeric ids
    # (generictest-envelopeN) shift between runs, so they are compared as a count.
    unstable = "test_swap_n3::test_cases[generictest-envelope"
    missing = [t for t in base["stable_pass"] if t not in passed and unstable not in t]
    n_base_env = sum(1 for t in base["stable_pass"] if unstable in t)
    n_now_env = sum(1 for t in passed if unstable in t)
    print(f"swap_n3 envelope cases: baseline={n_base_env} now={n_now_env}")
    if n_now_env < n_base_env - 1:
        missing.append(f"{unstable}*] count dropped {n_base_env}->{n_now_env}")
    print("pytest:", *tail)
    print(f"stable_pass={len(base['stable_pass'])} passed_now={len(passed)} missing={len(missing)}")
    for t in missing[:40]:
        print("  MISSING", t)
    import shutil; shutil.rmtree(out, ignore_errors=True)
    sys.exit(0 if not missing else 1)

main()
