#!/usr/bin/env python3
"""tools/run_harmless.py [ids…] — like run_seeded.py but for harmless/<id>/ (behaviour-preserving rewrites): the expected result is NO alarm (QUIET).
(original doc:) tools/run_seeded.py [ids…] — apply each seeded/<id>/patch.diff to /repo, run the quick check of the
property it targets (meta.json "property"; "also" lists further checks), restore /repo, and print a table.
Writes seeded/RESULTS.md.  /repo must be clean before and is clean after."""
import json, os, subprocess, sys, time
ROOT = os.path.dirname(os.path.dirname(os.path.abspath(__file__)))
def sh(cmd, **kw):
    return subprocess.run(cmd, shell=True, stdout=subprocess.PIPE, stderr=subprocess.STDOUT, text=True, **kw)
def main():
    ids = sys.argv[1:] or sorted(d for d in os.listdir(os.path.join(ROOT, "harmless")) if os.path.isdir(os.path.join(ROOT, "harmless", d)))
    sh("git -C /repo checkout -- test_reports")   # rdflib's own W3C tests rewrite these tracked files
    dirty = [l for l in sh("git -C /repo status --porcelain").stdout.splitlines() if "test_reports/" not in l]
    assert not dirty, "/repo not clean: %r" % dirty
    rows = []
    for i in ids:
        d = os.path.join(ROOT, "harmless", i)
        meta = json.load(open(os.path.join(d, "meta.json")))
        props = [meta["property"]] + list(meta.get("also", []))
        r = sh(f"git -C /repo apply {d}/patch.diff")
        if r.returncode != 0:
            rows.append((i, meta["property"], "PATCH-DOES-NOT-APPLY", r.stdout.strip()[:80])); continue
        import shutil
        saved = {}
        for p in props:
            ev = os.path.join(ROOT, "evidence", f"{p}.json")
            if os.path.exists(ev):
                saved[ev] = open(ev).read()
        try:
            for p in props:
                t = time.time()
                c = sh(f"cd {ROOT} && ./check {p} --tier quick", env={**os.environ, "VERIF_SEED": os.environ.get("VERIF_SEED", "0")})
                v = [l for l in c.stdout.splitlines() if l.startswith("VIOLATION")]
                rows.append((i, p, f"exit={c.returncode} " + ("ALARM" if c.returncode == 1 and v else "QUIET" if c.returncode == 0 else "ERROR"),
                             (v[0][:150] if v else c.stdout.strip().splitlines()[-1][:150]) + f" ({time.time()-t:.0f}s)"))
        finally:
            sh("git -C /repo checkout -- . && git -C /repo clean -fdq rdflib")
            sh(f"cd {ROOT} && git checkout -- lean/RV/*/Tables.lean")   # tables regenerated from the patched source
            for ev, txt in saved.items():   # evidence must describe the unchanged tree
                open(ev, "w").write(txt)
    out = ["# Behaviour-preserving rewrites vs checks (quick tier): QUIET is the wanted result", "", "| seeded id | check | result | first line |", "|---|---|---|---|"]
    for r in rows:
        out.append("| " + " | ".join(x.replace("|", "\\|") for x in r) + " |")
        print(*r, sep="  ")
    if not sys.argv[1:]:
        open(os.path.join(ROOT, "harmless", "RESULTS.md"), "w").write("\n".join(out) + "\n")
main()
